#!/usr/bin/env python3
"""Regenerates MANIFEST.json from the table below (kept in one place so it stays valid)."""
import json
props = {json.loads(l)['id']: json.loads(l) for l in open('/verif/properties.jsonl')}
W = "exhaustive replay-based DFS over the real plugin code under a controlled scheduler and a simulated node, iterative deviation bounding, explicit visited set"
checks = {
 "C01": ("model_checking", "W", W, "Every history of the hash-pairing scenarios (HTLC hash x invoice hash x 1-2 parts) and of the life-cycle scenarios with <= 2 (quick) / 3 (thorough) deviations incl. crashes is executed on the real HtlcManager/ClnDatastore/PayPaymentProvider; at every Resolve the key must hash to the HTLC's own hash and a part for that hash must be complete on the simulated node; at every pay the funded HTLCs must carry the invoice's hash.", "3.C01"),
 "C02": ("model_checking", "W", W, "All histories with <= 3 (quick) / 4 (thorough) deviations of the life-cycle scenarios (1-2 HTLCs, extra part, sender retry, pay commands with <= 2 parts and every ending A1 allows, one crash of every flavour, write faults; read faults in the thorough tier; scheduling deviations: a younger runnable task first, a task suspended before a lock / channel operation for one event, in S-park for up to twelve) and of every stored history a restart can find; every Fail is compared with the simulated node's parts / running pay commands at that instant, and at the drained end every HTLC held at or after a completion must have been settled with the preimage.", "3.C02"),
 "C03": ("model_checking", "W", W, "Amount / declared-total / invoice-amount / policy grid (S-amt, 69 scenarios) explored with <= 1 (quick) / 2 (thorough) deviations, in the overflow-checking and the wrapping build; at every pay request the held HTLCs must cover amount + policy fee (u128 reference), maxfee <= held - amount, bolt11 verbatim, amount_msat only for amountless invoices, and no counted HTLC may be answered before the payment's fate is known.", "3.C03"),
 "C04": ("model_checking", "W", W, "Expiry / height / delta grid (S-cltv, 66 scenarios incl. block and silent-height events between any two events) with <= 2 / 3 deviations; maxdelay of every pay is compared with min expiry of the funding set - height told at funding - safety delta (floored at 0) and with the policy delta; a low-relative-expiry HTLC arriving before funding must poison the set.", "3.C04"),
 "C05": ("model_checking", "W", W, "Same exploration as C02 plus sender-retry scenarios; at every pay request no part for the hash may be pending or complete and no other pay command running; HTLCs arriving after completion must be settled from the record.", "3.C05"),
 "C06": ("model_checking", "W+I", W + "; plus bounded-exhaustive input enumeration", "S-many (<= 4 HTLCs per hash before/while/after paying, rejections) and life-cycle scenarios with one RPC error at every write (reads: thorough), drained to the end: every delivered call answered exactly once, no panic, bounded waiting; plus every payload / metadata byte string of the structured set through the serde entry and the real handle_htlc (engine I), both builds.", "3.C06"),
 "C07": ("model_checking", "W", W, "S-set: 2-3 part sets with a rejecting HTLC (conflicting invoice, conflicting amount, low expiry, low declared total) at every position and every arrival order, <= 2 / 3 deviations (+ select start-branch deviations, thorough): all responses of one decision identical and covering the whole held set; a rejection of an incomplete set must fail the set and never pay.", "3.C07"),
 "C08": ("model_checking", "W", W, "Same exploration as C02; after every applied effect of every explored prefix (= every crash image) the durable record, read with the code's own fetch_payment_info, must say Pending/Succeeded whenever a part is pending/complete; Pending must be durable before each pay; Succeeded must hold a preimage.", "3.C08"),
 "C09": ("fault_enumeration", "W", W + "; every crash point / single write fault followed by a retry probe", "Every history of the life-cycle scenarios and of every stored history with <= 2 / 3 deviations (crash at every point with every applied/lost flavour, each write rejected or applied-but-failed) is followed by a probe: up to four fresh fully funded sets, with a clean restart in between, against a fault-free node; one of them must be settled.", "3.C09"),
 "C10": ("exploration", "W", "bounded-exhaustive enumeration of the classification product on the real handle_htlc, reference classifier as oracle", "The product invoice amount x signature x route hint x hash equality x amount-field encoding (length 0-9) x self-hint flag x metadata damage (796 quick / ~6000 thorough worlds) each run through the real HtlcManager to the drained end against a classifier written from the property text.", "3.C10"),
 "C11": ("model_checking", "W", W + " with virtual time", "S-mpp: partial sets (1-3 HTLCs) for T in {1 s, 60 s, 3600 s} with time steps on both sides of each deadline, crash + downtime, and stored histories with attempt ages around T; <= 2 / 3 deviations; no timeout failure before t_read + T, none still held one T after the plugin last heard about the hash, never a pay.", "3.C11"),
 "C12": ("exploration", "I+W", "bounded-exhaustive boundary grid + small-box enumeration against a u128 reference, two builds", "fee_sufficient on the boundary grid (3.1e6 cases quick) and an exhaustive small box, in the overflow-checking and the wrapping build; failure encoding for 484 policies; third sentence on the real HtlcManager for 6 policies x 3 kinds (W).", "3.C12"),
 "C13": ("exploration", "W", "bounded-exhaustive enumeration of pass-through request shapes on the real handle_htlc, differential baseline", "455 (quick) / ~3000 (thorough) non-trampoline request shapes (forward / final, forward_msat present / absent, record subsets, value lengths 0..65536, nine metadata shapes): continue on the first poll, no RPC, payload = input minus record 16 (independent encoder), and a following payment for the same hash issues exactly the baseline requests.", "3.C13"),
 "C15": ("model_checking", "P", "exhaustive exploration (no deviation bound) of the real PayPaymentProvider::wait_payment over the simulated node", "All interleavings of list / wait RPC evaluations with part resolutions (0-2 parts quick, 0-3 thorough, every initial status, four failure codes), plus one injected read fault.", "3.C15"),
 "C16": ("model_checking", "P+W", "exhaustive exploration of the real PayPaymentProvider::pay over the simulated node; end-to-end monitor in W", "Every pay ending contract A1 allows x every parts configuration (<= 2 new parts) x every resolution order, xpay on/off; plus the end-to-end oracle in the life-cycle scenarios.", "3.C16"),
 "C18": ("exploration", "I", "bounded-exhaustive byte-string enumeration against an independent BigSize reference codec", "Every byte string of length <= 3 (quick) / 4 (thorough), every string of length <= 6 / 8 over a 9-symbol alphabet, ~2600 structured truncations, tu64 on all strings of length 0-9 over 5 symbols.", "3.C18"),
}
na = {
}
import sys
extra = json.load(open('/verif/manifest_extra.json')) if __import__('os').path.exists('/verif/manifest_extra.json') else {}
checks.update({k: tuple(v) for k, v in extra.get('checks', {}).items()})
for k in extra.get('checks', {}): na.pop(k, None)
m = {
 "version": 1,
 "setup_cmd": "cd /verif/mc && CARGO_NET_OFFLINE=true cargo build --offline --profile mc && CARGO_NET_OFFLINE=true cargo build --offline --profile mcw && CARGO_NET_OFFLINE=true CARGO_TARGET_DIR=/verif/.target/e2e cargo build --offline --manifest-path /repo/Cargo.toml",
 "hooks": {
  "guard": "cargo feature breez_trampoline_verif",
  "enable": "the harness crate /verif/mc compiles /repo/src/*.rs into itself by #[path] and declares a feature of the same name (default on); engine E builds /repo itself with the guard off",
  "baseline_off_cmd": "cd /repo && cargo test --workspace --no-fail-fast --offline",
  "source_commits": ["d751abb"],
  "add_only": True,
 },
 "engines": [
  {"name": "W", "path": "mc/src/engine_w.rs", "serves_properties": ["C01","C02","C03","C04","C05","C06","C07","C08","C09","C10","C11","C12","C13","C16"], "kind_free_text": "world: real HtlcManager+ClnDatastore+PayPaymentProvider<Rpc>+BlockWatcher over SimNode; replay DFS with deviation bounding; environment events plus run-queue (Pick) and preemption (Park) deviations"},
  {"name": "P", "path": "mc/src/engine_p.rs", "serves_properties": ["C15","C16"], "kind_free_text": "real PayPaymentProvider<SimNode>, all interleavings"},
  {"name": "I", "path": "mc/src/engine_i.rs", "serves_properties": ["C06","C12","C18"], "kind_free_text": "bounded-exhaustive input enumeration of pure entry points against reference implementations"},
 ] + extra.get('engines', []),
 "checks": [],
 "not_applicable": [{"property_id": k, "reason": v} for k, v in sorted(na.items())],
 "notes": "One cargo crate (/verif/mc) compiles the subject by path; `./check <ID> --tier quick|thorough` rebuilds from /repo's working tree and runs only that property's oracles. Exit 0 held / 1 VIOLATION / 2 machinery failure. known_findings.json lists genuine defects recorded or fixed.",
}
for pid in sorted(checks):
    level, engine, technique, text, ref = checks[pid]
    text = extra.get('texts', {}).get(pid, text)
    m["checks"].append({
      "property_id": pid,
      "quick_cmd": f"./check {pid} --tier quick",
      "thorough_cmd": f"./check {pid} --tier thorough",
      "evidence_file": f"/verif/evidence/{pid}.json",
      "replay_cmd_template": "./check replay {path}",
      "engine": engine,
      "level_claimed": {"category": level, "text": text, "design_ref": "DESIGN.md section " + ref},
      "level_note": "Trusted: SimNode as a model of Core Lightning (contract A1-A5, DESIGN.md 2.4), the oracles, rustc/cargo, tokio 1.38.0 (+ vendor/tokio.patch: select start branch, run-queue order and preemption points before Mutex::lock / mpsc send / recv are owned by the explorer). Bounds are real bounds (HTLCs per hash, parts per pay, crashes, faults, deviation level as reported in the evidence; at most one scheduling deviation per step and one suspended task per history); parallel execution inside sections without a tokio synchronisation operation is not explored.",
      "technique": technique,
    })
json.dump(m, open('/verif/MANIFEST.json', 'w'), indent=1)
print("checks", len(m["checks"]), "n/a", len(m["not_applicable"]))
