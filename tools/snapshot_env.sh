#!/bin/bash
# source this: builds background sweeps from a snapshot of the harness so that /verif/mc can be edited meanwhile
mkdir -p /verif/.sweep/out
rsync -a --delete /verif/mc/ /verif/.sweep/mc/ --exclude target
rsync -a --delete /verif/vendor/ /verif/.sweep/vendor/
export VERIF_MC_DIR=/verif/.sweep/mc VERIF_TARGET=/verif/.sweep/target VERIF_OUT=/verif/.sweep/out
