#!/bin/bash
# source this: background sweeps build from a snapshot of the harness and work on a scratch worktree of /repo,
# so that neither /verif/mc nor /repo is disturbed while they run
mkdir -p /verif/.sweep/out
rsync -a --delete /verif/mc/ /verif/.sweep/mc/ --exclude target
rsync -a --delete /verif/vendor/ /verif/.sweep/vendor/
if [ ! -d /verif/.sweep/repo ]; then git -C /repo worktree add -q --detach /verif/.sweep/repo HEAD; fi
git -C /verif/.sweep/repo checkout -q --detach "$(git -C /repo rev-parse HEAD)" && git -C /verif/.sweep/repo checkout -q -- . && git -C /verif/.sweep/repo clean -fdq src
export VERIF_MC_DIR=/verif/.sweep/mc VERIF_TARGET=/verif/.sweep/target VERIF_OUT=/verif/.sweep/out VERIF_REPO=/verif/.sweep/repo
