#!/bin/bash
# source this [name]: background sweeps build from a snapshot of the harness and work on a scratch worktree of
# /repo, so that neither /verif/mc nor /repo is disturbed while they run. Different names = independent sweeps.
SW=/verif/.sweep${1:+-$1}
mkdir -p $SW/out
rsync -a --delete /verif/mc/ $SW/mc/ --exclude target
rsync -a --delete /verif/vendor/ $SW/vendor/
if [ ! -d $SW/repo ]; then git -C /repo worktree add -q --detach $SW/repo HEAD; fi
git -C $SW/repo checkout -q --detach "$(git -C /repo rev-parse HEAD)" && git -C $SW/repo checkout -q -- . && git -C $SW/repo clean -fdq src
export VERIF_MC_DIR=$SW/mc VERIF_TARGET=$SW/target VERIF_OUT=$SW/out VERIF_REPO=$SW/repo
