#!/usr/bin/env python3
"""Behaviour-preserving changes to the subject. Every check must stay silent (exit 0) on each of them.
usage (inside `source tools/snapshot_env.sh <name>`): tools/benign_changes.py [name-substring]"""
import subprocess, sys, os
REPO=os.environ.get('VERIF_REPO','/repo')
H='src/htlc_manager.rs'; P='src/payment_provider.rs'; S='src/store.rs'
ALL=["C%02d"%i for i in range(1,21)]
B=[]
def b(name, edits, checks=ALL): B.append((name,edits,checks))
b('rename-datastore-keys', [(S,'String::from("state"),','String::from("status"),'),(S,'String::from("attempts"),','String::from("tries"),')])
b('extra-completed-query-after-waits', [(P,'''        Ok(None)
    }
}

/// `PaymentRequest` defines''','''        // belt and braces: look at the completed parts once more
        let again = self.rpc.listsendpays(&completed_req).await?;
        if let Some(preimage) = again.payments.iter().filter_map(|p| p.payment_preimage).next() {
            return Ok(Some(preimage.to_vec()));
        }
        Ok(None)
    }
}

/// `PaymentRequest` defines''')], ["C02","C05","C08","C15","C16","C01","C06"])
b('yield-at-start-of-handle-htlc', [(H,'''        trace!("got htlc");
        let (sender, receiver) = oneshot::channel();''','''        trace!("got htlc");
        tokio::task::yield_now().await;
        let (sender, receiver) = oneshot::channel();''')], ["C13","C06","C07","C02","C03","C10","C14","C01"])
b('height-read-before-params', [(H,'''    // Get the payment parameters.
    let (max_fee_msat, cltv_expiry) = {''','''    let current_height = params.block_provider.current_height().await;
    // Get the payment parameters.
    let (max_fee_msat, cltv_expiry) = {'''),(H,'''    let current_height = params.block_provider.current_height().await;
    let max_cltv_delta = std::cmp::min(''','''    let max_cltv_delta = std::cmp::min(''')], ["C04","C03","C02","C14","C19"])
b('attempt-record-written-before-state-marker', None, ["C08","C09","C02","C05","C01","C06"])
b('retry-delay-5s', [(H,'const RETRY_DELAY: Duration = Duration::from_secs(1);','const RETRY_DELAY: Duration = Duration::from_secs(5);'),(P,'const RETRY_DELAY: Duration = Duration::from_secs(1);','const RETRY_DELAY: Duration = Duration::from_secs(5);')], ["C02","C06","C16","C09","C11"])
b('channel-capacity-4', [(H,'let (s1, r1) = mpsc::channel(1);','let (s1, r1) = mpsc::channel(4);'),(H,'let (s2, r2) = mpsc::channel(1);','let (s2, r2) = mpsc::channel(4);')], ["C06","C07","C14","C11","C02"])

b('sequential-part-waits', [(P,'let mut tasks = FuturesUnordered::new();','let mut tasks = Vec::new();'),
  (P,'while let Some(res) = tasks.next().await {','for t in tasks {\n            let res = t.await;'),
  (P,'use futures::{stream::FuturesUnordered, StreamExt};','')], ["C15","C16","C02","C05","C08","C09","C01"])
b('mark-succeeded-before-resolve', [(H,"""            debug!("Payment succeeded, resolving payment with preimage.");
            resolve(
                &payments,
                &trampoline,
                HtlcAcceptedResponse::Resolve {
                    payment_key: preimage.clone(),
                },
            )
            .await;
            if let Err(e) = params
                .store
                .mark_succeeded(&trampoline, &attempt_id, preimage)
                .await
            {
                error!("Failed to mark payment as succeeded: {:?}", e);
            }
""","""            debug!("Payment succeeded, resolving payment with preimage.");
            if let Err(e) = params
                .store
                .mark_succeeded(&trampoline, &attempt_id, preimage.clone())
                .await
            {
                error!("Failed to mark payment as succeeded: {:?}", e);
            }
            resolve(
                &payments,
                &trampoline,
                HtlcAcceptedResponse::Resolve {
                    payment_key: preimage,
                },
            )
            .await;
""")], ["C08","C02","C05","C06","C07","C09","C01","C14"])
EXP = """            // Ensure there's enough relative time to claim htlcs.
            if req.htlc.cltv_expiry_relative < self.params.routing_policy.cltv_expiry_delta as i64 {
                trace!(
                    cltv_expiry_relative = req.htlc.cltv_expiry_relative,
                    policy_cltv_expiry_delta = self.params.routing_policy.cltv_expiry_delta,
                    "Relative cltv expiry too low."
                );
                payment_state
                    .fail(self.trampoline_fee_or_expiry_insufficient())
                    .await;
            }

"""
b('expiry-check-after-fee-check', [(H,EXP,''),(H,"""            // Do add the htlc to the payment state always, also if it has
""",EXP+"""            // Do add the htlc to the payment state always, also if it has
""")], ["C03","C04","C02","C13","C14","C19","C01"])

b('handler-peeks-map-first', [(H,"""        {
            let mut payments = self.payments.lock().await;
            let payment_state = payments
                .entry(*trampoline.invoice.payment_hash())""","""        let known = self.payments.lock().await.len();
        trace!(known, "payments currently tracked");
        {
            let mut payments = self.payments.lock().await;
            let payment_state = payments
                .entry(*trampoline.invoice.payment_hash())""")], ["C07","C06","C02","C05","C04","C03","C11","C14","C12","C01"])
b('handler-reads-height-first', [(H,"""        {
            let mut payments = self.payments.lock().await;
            let payment_state = payments
                .entry(*trampoline.invoice.payment_hash())""","""        let height = self.params.block_provider.current_height().await;
        trace!(height, "height when the htlc arrived");
        {
            let mut payments = self.payments.lock().await;
            let payment_state = payments
                .entry(*trampoline.invoice.payment_hash())""")], ["C07","C06","C02","C05","C04","C03","C11","C14","C12","C01"])

def sh(cmd, cwd=None):
    return subprocess.run(cmd, shell=True, cwd=cwd, capture_output=True, text=True)
only = sys.argv[1] if len(sys.argv)>1 else ''
for name,edits,checks in B:
    if only and only not in name: continue
    if edits is None: continue
    ok=True
    for f,old,new in edits:
        p=os.path.join(REPO,f); s=open(p).read()
        if s.count(old)!=1: print(f"{name}: PATTERN-NOT-FOUND in {f} ({s.count(old)})"); ok=False; break
        open(p,'w').write(s.replace(old,new))
    if ok:
        t=sh('timeout 200 cargo test --offline 2>&1 | grep -E "test result" | head -1', REPO)
        res=[]
        for c in checks:
            r=sh(f'./check {c} --tier quick 2>&1','/verif')
            if r.returncode!=0:
                lines=[l.strip()[:160] for l in r.stdout.split('\n') if l.startswith('  C') or 'MACHINERY' in l or 'BUILD' in l]
                res.append(f"{c}:rc={r.returncode} {lines[:2]}")
        print(f"{name}: tests[{t.stdout.strip()[13:40]}] checks={len(checks)} alarms={res if res else 'none'}", flush=True)
    sh('git checkout -- .', REPO)
