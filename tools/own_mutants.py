#!/usr/bin/env python3
"""Hand-written single-site mutants (the 'planned mutants' of DESIGN.md round 0). For each: apply to /repo,
run the repository's tests, run the listed quick checks, undo. Prints one line per mutant.
usage: tools/own_mutants.py [name-substring]"""
import subprocess, sys, os, re, json
REPO=os.environ.get('VERIF_REPO','/repo')
M=[]
def m(name, file, old, new, checks, count=1): M.append((name,file,old,new,checks,count))
H='src/htlc_manager.rs'; P='src/payment_provider.rs'; S='src/store.rs'; MSG='src/messages.rs'; T='src/tlv.rs'; B='src/block_watcher.rs'; MAIN='src/main.rs'; CM='src/cln_plugin/mod.rs'
m('C02-pending-is-failure', P, '''            PayStatus::PENDING => {
                warn!("payment is pending after pay returned");
                return match self.wait_payment_until_known(req.payment_hash).await {
                    Some(preimage) => Ok(preimage),
                    None => Err(anyhow!("payment failed")),
                };
            }''', '''            PayStatus::PENDING => {
                warn!("payment is pending after pay returned");
                return Err(anyhow!("payment failed"));
            }''', ['C02','C16'])
m('C02-no-recheck-on-pay-error', P, '''                return match self.wait_payment_until_known(req.payment_hash).await {
                    Some(preimage) => Ok(preimage),
                    None => Err(anyhow!(e.to_string())),
                };''', '''                return Err(anyhow!(e.to_string()));''', ['C02','C16'])
m('C02-ignore-partial-completion-warning', P, '''                if let Some(warning) = resp.warning_partial_completion {''', '''                if let Some(warning) = resp.warning_partial_completion.filter(|_| false) {''', ['C02','C16'])
m('C03-maxfee-is-received', H, '''        let max_fee_msat = payment
            .amount_received_msat
            .saturating_sub(trampoline.amount_msat);''', '''        let max_fee_msat = payment.amount_received_msat;''', ['C03'])
m('C03-always-pass-amount', H, '''        Some(_) => None,
        None => Some(trampoline.amount_msat),''', '''        Some(_) => Some(trampoline.amount_msat),
        None => Some(trampoline.amount_msat),''', ['C03','C10'])
m('C03-ready-on-declared-total', H, '''                .fee_sufficient(self.amount_received_msat, self.trampoline.amount_msat)''', '''                .fee_sufficient(req.onion.total_msat.unwrap_or(self.amount_received_msat), self.trampoline.amount_msat)''', ['C03'])
m('C04-first-expiry-not-min', H, '''        self.cltv_expiry = std::cmp::min(req.htlc.cltv_expiry, self.cltv_expiry);''', '''        if self.htlcs.is_empty() {
            self.cltv_expiry = req.htlc.cltv_expiry;
        }''', ['C04'])
m('C04-subtract-policy-delta', H, '''            .saturating_sub(params.cltv_delta as u32)''', '''            .saturating_sub(trampoline.routing_policy.cltv_expiry_delta as u32)''', ['C04','C19'])
m('C04-no-policy-cap', H, '''    let max_cltv_delta = std::cmp::min(
        cltv_expiry
            .saturating_sub(current_height)
            .saturating_sub(params.cltv_delta as u32)
            .try_into()
            .unwrap_or(u16::MAX),
        trampoline.routing_policy.cltv_expiry_delta,
    );''', '''    let max_cltv_delta: u16 = cltv_expiry
        .saturating_sub(current_height)
        .saturating_sub(params.cltv_delta as u32)
        .try_into()
        .unwrap_or(u16::MAX);''', ['C04','C19'])
m('C05-ignore-succeeded', H, '''        crate::store::PaymentState::Succeeded { preimage } => {
            debug!("existing payment already had preimage");
            resolve(
                &payments,
                &trampoline,
                HtlcAcceptedResponse::resolve(preimage),
            )
            .await;
            return;
        }''', '''        crate::store::PaymentState::Succeeded { preimage: _ } => params.mpp_timeout,''', ['C05','C02'])
m('C06-no-is-ready-guard', H, '''        if !self.is_ready
            && !self.is_fail_requested''', '''        if !self.is_fail_requested''', ['C06'])
m('C06-return-without-resolve-on-store-error', H, '''            error!("Failed to insert payment attempt in data store: {:?}", e);
            resolve(
                &payments,
                &trampoline,
                HtlcAcceptedResponse::temporary_node_failure(),
            )
            .await;
            return;''', '''            error!("Failed to insert payment attempt in data store: {:?}", e);
            return;''', ['C06'])
m('C07-resolve-only-last-listener', H, '''        while let Some(listener) = self.htlcs.pop() {''', '''        if let Some(listener) = self.htlcs.pop() {''', ['C07','C06'])
m('C08-pay-before-intent', H, None, None, ['C08'])  # handled specially below
m('C08-mark-failed-before-resolve-on-success', H, '''            debug!("Payment succeeded, resolving payment with preimage.");''', '''            debug!("Payment succeeded, resolving payment with preimage.");
            let _ = params.store.mark_failed(&trampoline, &attempt_id).await;''', ['C08'])
m('C09-state-write-must-create', S, '''                string: Some(state),
                hex: None,
                mode: Some(DatastoreMode::CREATE_OR_REPLACE),
            })
            .await?
            .generation;''', '''                string: Some(state),
                hex: None,
                mode: Some(DatastoreMode::MUST_CREATE),
            })
            .await?
            .generation;''', ['C09'])
m('C11-restart-grants-full-timeout', H, '''            params.mpp_timeout.saturating_sub(
                std::time::SystemTime::now()
                    .duration_since(std::time::UNIX_EPOCH)
                    .context("duration since unix epoch should always work")
                    .unwrap()
                    .saturating_sub(Duration::from_secs(attempt_time_seconds)),
            )''', '''            {
                let _ = attempt_time_seconds;
                params.mpp_timeout
            }''', ['C11'])
m('C11-timeout-code-node-failure', H, '''            debug!("Payment timed out waiting for htlcs.");
            resolve(&payments, &trampoline, HtlcAcceptedResponse::temporary_trampoline_failure()).await;''', '''            debug!("Payment timed out waiting for htlcs.");
            resolve(&payments, &trampoline, HtlcAcceptedResponse::temporary_node_failure()).await;''', ['C11'])
m('C11-sleep-twice-as-long', H, '''        _ = tokio::time::sleep(time_left) => {''', '''        _ = tokio::time::sleep(time_left * 2) => {''', ['C11','C06'])
m('C12-strict-greater', MSG, '''            Some(required_msat) => total_msat >= required_msat,''', '''            Some(required_msat) => total_msat > required_msat,''', ['C12'])
m('C12-divide-before-multiply', MSG, '''        let rate_part = match invoice_msat.checked_mul(self.fee_proportional_millionths as u64) {
            Some(rate_part) => rate_part / 1_000_000,
            None => return false,
        };''', '''        let rate_part = (invoice_msat / 1_000_000) * self.fee_proportional_millionths as u64;''', ['C12'])
m('C12-swap-base-ppm-encoding', MSG, '''                s.extend_from_slice(&policy.fee_base_msat.to_be_bytes());
                s.extend_from_slice(&policy.fee_proportional_millionths.to_be_bytes());''', '''                s.extend_from_slice(&policy.fee_proportional_millionths.to_be_bytes());
                s.extend_from_slice(&policy.fee_base_msat.to_be_bytes());''', ['C12','C19'])
m('C13-strip-record-18-too', H, '''                payload.remove(TLV_PAYMENT_METADATA);''', '''                payload.remove(TLV_PAYMENT_METADATA);
                payload.remove(18);''', ['C13'])
m('C15-remove-204', P, '''                            204 => {}
''', '', ['C15','C16'])
m('C15-preimage-filter-dropped', P, '''            .filter_map(|p| p.payment_preimage)
            .next()''', '''            .map(|p| p.payment_preimage.unwrap_or_else(|| [0u8; 32].to_vec().try_into().unwrap()))
            .next()''', ['C15'])
m('C18-accept-9-byte-tu64', T, '''        if remaining > 8 {''', '''        if remaining > 9 {''', ['C18','C10'])
m('C18-little-endian-tu64', T, '''        Ok(u64::from_be_bytes(b))''', '''        Ok(u64::from_le_bytes(b))''', ['C18'])
m('C19-swap-deltas', MAIN, '''        cltv_delta,
        local_pubkey: info.id,''', '''        cltv_delta: cltv_expiry_delta,
        local_pubkey: info.id,''', ['C19'])
m('C19-swap-timeouts', MAIN, '''    let mpp_timeout = Duration::from_secs(mpp_timeout_secs);''', '''    let _unused: u64 = mpp_timeout_secs;
    let mpp_timeout = Duration::from_secs(payment_timeout_secs);''', ['C19'])
m('C19-lt-for-le', MAIN, '''    if cltv_expiry_delta <= cltv_delta {''', '''    if cltv_expiry_delta < cltv_delta {''', ['C19'])
m('C20-ne-for-gt', B, '''    let updated = if new_height > *current_height {''', '''    let updated = if new_height != *current_height {''', ['C20'])
m('C17-reply-null-id-on-error', CM, '''                                    "jsonrpc": "2.0",
                                    "id": id,
                                    "error": parse_error(e.to_string()),''', '''                                    "jsonrpc": "2.0",
                                    "id": serde_json::Value::Null,
                                    "error": parse_error(e.to_string()),''', ['C17'])
m('C01-resolve-with-stored-preimage-of-other-attempt', S, '''            PersistPaymentState::Succeeded { preimage } => PaymentState::Succeeded { preimage },''', '''            PersistPaymentState::Succeeded { mut preimage } => {
                preimage.reverse();
                PaymentState::Succeeded { preimage }
            }''', ['C01','C08'])
m('C10-skip-signature-check', H, '''        if invoice.check_signature().is_err() {''', '''        if false && invoice.check_signature().is_err() {''', ['C10'])
m('C10-self-hint-any-hop', H, '''            hint.0
                .last()
                .map(|hop| hop.src_node_id.eq(&self.params.local_pubkey))
                .unwrap_or(false)''', '''            hint.0
                .first()
                .map(|hop| hop.src_node_id.eq(&self.params.local_pubkey))
                .unwrap_or(false)''', ['C10'])
m('C11-sleep-half', H, '''        _ = tokio::time::sleep(time_left) => {''', '''        _ = tokio::time::sleep(time_left / 2) => {''', ['C11'])
m('C11-restart-grants-double-timeout', H, '''            params.mpp_timeout.saturating_sub(
                std::time::SystemTime::now()''', '''            (params.mpp_timeout * 2).saturating_sub(
                std::time::SystemTime::now()''', ['C11'])
m('C05-skip-wait-when-pending', H, '''                    Ok(maybe_preimage) => break maybe_preimage,
                    Err(e) => {
                        error!("Failed to await pending payment, retrying: {:?}", e);''', '''                    Ok(_) => break None::<Vec<u8>>,
                    Err(e) => {
                        error!("Failed to await pending payment, retrying: {:?}", e);''', ['C05','C02'])
m('C12-ignore-base-fee', MSG, '''        let fee_msat = match (self.fee_base_msat as u64).checked_add(rate_part) {
            Some(total_part) => total_part,
            None => return false,
        };''', '''        let fee_msat = rate_part;''', ['C12','C03'])
m('C19-mpp-timeout-in-millis', MAIN, '''    let mpp_timeout = Duration::from_secs(mpp_timeout_secs);''', '''    let mpp_timeout = Duration::from_millis(mpp_timeout_secs);''', ['C19'])
m('C07-fail-only-after-ready-check', H, '''        if !self.is_fail_requested {
            self.is_ready = false;
            self.is_fail_requested = true;''', '''        if !self.is_fail_requested && !self.is_ready {
            self.is_ready = false;
            self.is_fail_requested = true;''', ['C07'])
m('C01-hash-check-dropped', H, '''        if AsRef::<[u8]>::as_ref(invoice.payment_hash()) != req.htlc.payment_hash.as_slice() {''', '''        if false && AsRef::<[u8]>::as_ref(invoice.payment_hash()) != req.htlc.payment_hash.as_slice() {''', ['C01','C10'])
m('C15-parallel-lists-again', P, '''        let pending_payments = pending_payments_fut.await?;
        let completed_payments = completed_payments_fut.await?;''', '''        let (completed_payments, pending_payments) = tokio::join!(completed_payments_fut, pending_payments_fut);
        let (completed_payments, pending_payments) = (completed_payments?, pending_payments?);''', ['C15','C16','C02'])
m('C09-mark-failed-must-replace-again', S, '''                // The attempt record may be missing when an earlier run was
                // interrupted between the two writes of `add_payment_attempt`.
                mode: Some(DatastoreMode::CREATE_OR_REPLACE),''', '''                mode: Some(DatastoreMode::MUST_REPLACE),''', ['C09'])
m('C18-varint-check-dropped', T, '''        if self.remaining() < 1 + needed {''', '''        if false && self.remaining() < 1 + needed {''', ['C18','C06'])
m('C12-unchecked-add-again', MSG, '''        match invoice_msat.checked_add(fee_msat) {
            Some(required_msat) => total_msat >= required_msat,
            None => false,
        }''', '''        total_msat >= invoice_msat.wrapping_add(fee_msat)''', ['C12','C03'])
m('C02-fetch-error-fails-set-again', H, '''            Err(e) => {
                error!("Failed to fetch payment info, retrying: {:?}", e);
                tokio::time::sleep(RETRY_DELAY).await;
            }''', '''            Err(e) => {
                error!("Failed to fetch payment info: {:?}", e);
                resolve(&payments, &trampoline, HtlcAcceptedResponse::temporary_node_failure()).await;
                return;
            }''', [])

# --- concurrency mutants: the plugin runs on a multi-threaded runtime; these only misbehave when one task is
# --- descheduled between two of its synchronisation operations (found through Park deviations, DESIGN 2.9)
m('SCHED-handler-check-then-act', H, '''        {
            let mut payments = self.payments.lock().await;
            let payment_state = payments
                .entry(*trampoline.invoice.payment_hash())
                .or_insert_with(|| {
                    // If the payment did not yet exist, spawn the payment lifecycle.
                    let (s1, r1) = mpsc::channel(1);
                    let (s2, r2) = mpsc::channel(1);
                    tokio::spawn(payment_lifecycle(
                        Arc::clone(&self.params),
                        Arc::clone(&self.payments),
                        trampoline.clone(),
                        r1,
                        r2,
                    ));

                    // And insert the payment into the hashmap.
                    PaymentState::new(trampoline.clone(), s1, s2)
                });
''', '''        let known = self
            .payments
            .lock()
            .await
            .contains_key(trampoline.invoice.payment_hash());
        if !known {
            // If the payment did not yet exist, spawn the payment lifecycle.
            let (s1, r1) = mpsc::channel(1);
            let (s2, r2) = mpsc::channel(1);
            tokio::spawn(payment_lifecycle(
                Arc::clone(&self.params),
                Arc::clone(&self.payments),
                trampoline.clone(),
                r1,
                r2,
            ));
            self.payments.lock().await.insert(
                *trampoline.invoice.payment_hash(),
                PaymentState::new(trampoline.clone(), s1, s2),
            );
        }
        {
            let mut payments = self.payments.lock().await;
            let payment_state = payments
                .get_mut(trampoline.invoice.payment_hash())
                .expect("payment state was just inserted");
''', ['C05','C06','C02'])
m('SCHED-state-taken-out-and-put-back', H, '''    let (max_fee_msat, cltv_expiry) = {
        let payments = payments.lock().await;
        let payment = payments
            .get(trampoline.invoice.payment_hash())
            .expect("Payment is ready for paying, but payment was already gone.");
        let max_fee_msat = payment
            .amount_received_msat
            .saturating_sub(trampoline.amount_msat);
        (max_fee_msat, payment.cltv_expiry)
    };
''', '''    let (max_fee_msat, cltv_expiry) = {
        let payment = payments
            .lock()
            .await
            .remove(trampoline.invoice.payment_hash())
            .expect("Payment is ready for paying, but payment was already gone.");
        let max_fee_msat = payment
            .amount_received_msat
            .saturating_sub(trampoline.amount_msat);
        let cltv_expiry = payment.cltv_expiry;
        payments
            .lock()
            .await
            .insert(*trampoline.invoice.payment_hash(), payment);
        (max_fee_msat, cltv_expiry)
    };
''', ['C06','C05','C02'])
m('SCHED-height-lost-update', B, '''    let mut current_height = current_height.lock().await;
    let updated = if new_height > *current_height {
        *current_height = new_height;
        Some(*current_height)
    } else {
        None
    };
''', '''    let known = *current_height.lock().await;
    let updated = if new_height > known {
        *current_height.lock().await = new_height;
        Some(new_height)
    } else {
        None
    };
''', ['C20','C04'])

def sh(cmd, cwd=None, timeout=3600):
    return subprocess.run(cmd, shell=True, cwd=cwd, capture_output=True, text=True, timeout=timeout)

def special_pay_before_intent(src):
    # move the add_payment_attempt block after the pay call is impossible textually in a small patch; instead issue
    # the pay before the second intent write: make add_payment_attempt write the attempt record first and the state marker second
    return None

only = sys.argv[1] if len(sys.argv)>1 else ''
skip = set(sys.argv[2].split(',')) if len(sys.argv)>2 else set()
assert sh('git status --porcelain --untracked-files=no', REPO).stdout.strip()=='' , '/repo dirty'
results=[]
for name,file,old,new,checks,count in M:
    if only and only not in name: continue
    if name in skip: continue
    if old is None: continue
    path=os.path.join(REPO,file)
    src=open(path).read()
    if src.count(old)!=count:
        print(f"{name}: PATTERN-NOT-FOUND ({src.count(old)})"); continue
    open(path,'w').write(src.replace(old,new))
    try:
        t=sh('timeout 150 cargo test --offline 2>&1 | grep -E "^error|test result"; pkill -x -f "[^ ]*/target/debug/deps/trampoline-[0-9a-f]*" >/dev/null 2>&1', REPO)
        tests='pass' if 'ok. 56 passed' in t.stdout else ('suite-FAILS:'+[l for l in t.stdout.split('\n') if 'test result' in l][0][13:50] if 'test result' in t.stdout else ('BUILD-ERR' if 'error' in t.stdout else 'suite-HANGS-or-slow'))
        out=[]
        for c in checks:
            r=sh(f'./check {c} --tier quick 2>&1', '/verif')
            sigs=[l.strip().split(' [')[0] for l in r.stdout.split('\n') if l.startswith('  C')]
            out.append(f"{c}:rc={r.returncode}" + (f"({sigs[0][:90]})" if sigs else ''))
        print(f"{name}: tests={tests} :: "+' | '.join(out), flush=True)
    finally:
        sh('git checkout -- .', REPO)
