#!/bin/bash
# Regression test of the checks themselves: applies every seeded change (seeded/<id>/patch.diff) to a scratch
# worktree of /repo and requires each check named in meta.json "expect_checks" to report a violation (quick tier).
# usage: tools/seeded_regression.sh [id ...]      (runs in an isolated sweep environment, /repo is not touched)
cd /verif && source tools/snapshot_env.sh regress
ids=("$@"); [ ${#ids[@]} -eq 0 ] && ids=($(ls seeded))
fail=0
for id in "${ids[@]}"; do
  [ -f seeded/$id/meta.json ] || continue
  checks=$(python3 -c "import json;print(' '.join(json.load(open('seeded/$id/meta.json'))['expect_checks']))")
  out=$(tools/run_mutant.sh /verif/seeded/$id/patch.diff $checks 2>&1)
  for c in $checks; do
    if echo "$out" | grep -q "^\[$c\] exit=1"; then echo "ok   $id caught by $c"; else echo "MISS $id not caught by $c :: $(echo "$out" | grep "^\[$c\]")"; fail=1; fi
  done
done
exit $fail
