#!/bin/bash
# usage: tools/confirm_seeded.sh <dir with patch.diff and demo.diff> <demo test name filter>
# Confirms a sub-agent's change in a fresh scratch worktree of /repo HEAD (removed afterwards):
#   (i) patch alone -> the existing tests pass; (ii) demonstration alone -> passes; (iii) both -> demonstration fails.
set -u
D=$(realpath "$1"); T=$2
W=$(mktemp -d /tmp/confirm-XXXXXX); rmdir "$W"
git -C /repo worktree add -q --detach "$W" HEAD || exit 2
trap 'git -C /repo worktree remove --force "$W" >/dev/null 2>&1; rm -rf "$W"' EXIT
export CARGO_TARGET_DIR=$W/target CARGO_NET_OFFLINE=true
cd "$W"
git apply "$D/patch.diff" || { echo "patch does not apply"; exit 2; }
r=$(cargo test --workspace --no-fail-fast --offline 2>&1 | grep -E '^test result' | tr '\n' ' ')
echo "(i)   patch alone: $r"
git checkout -q -- . && git clean -fdq src tests 2>/dev/null
git apply "$D/demo.diff" || { echo "demo does not apply"; exit 2; }
r=$(cargo test --workspace --offline "$T" 2>&1 | grep -E '^test result|^test .*(ok|FAILED)$' | tr '\n' ' ')
echo "(ii)  demo alone: $r"
git checkout -q -- . && git clean -fdq src tests 2>/dev/null
git apply "$D/patch.diff" && git apply "$D/demo.diff" || { echo "patch+demo do not apply together"; exit 2; }
r=$(cargo test --workspace --offline "$T" 2>&1 | grep -E '^test result|^test .*(ok|FAILED)$' | tr '\n' ' ')
echo "(iii) patch + demo: $r"
