#!/bin/bash
cd /verif && source tools/snapshot_env.sh
for id in C15 C16 C12 C10 C13 C03 C07 C09 C11 C04 C14 C01 C17 C19 C06 C02 C05 C08 C20 C18; do
  s=$(date +%s); out=$(./check $id --tier thorough 2>&1); rc=$?; e=$(date +%s)
  echo "[$id] rc=$rc $((e-s))s :: $(echo "$out" | grep -E "^C[0-9]+ thorough|VIOLATION|KNOWN|MACHINERY" | cut -c1-260 | tr '\n' '|')"
done
