#!/bin/bash
# usage (inside `source tools/snapshot_env.sh <name>`): tools/benign_patches.sh <patch.diff>... 
# Applies each behaviour-preserving patch to the checked tree, runs the repository's tests and ALL twenty quick
# checks, and reports every check that is not silent (exit != 0). Undoes the patch afterwards.
REPO=${VERIF_REPO:-/repo}
for p in "$@"; do
  cd $REPO || exit 2
  if [ -n "$(git status --porcelain --untracked-files=no)" ]; then echo "$REPO is dirty; refusing"; exit 2; fi
  git apply "$p" || { echo "$p: does not apply"; continue; }
  t=$(CARGO_NET_OFFLINE=true timeout 600 cargo test --workspace --no-fail-fast --offline 2>&1 | grep -E "^test result" | head -1 | cut -c1-60)
  cd /verif; alarms=""
  for i in $(seq -w 1 20); do
    out=$(./check C$i --tier quick 2>&1); rc=$?
    if [ $rc -ne 0 ]; then alarms="$alarms C$i:rc=$rc[$(echo "$out" | grep -E '^  C[0-9][0-9]/|MACHINERY|BUILD' | head -2 | cut -c1-200 | tr '\n' ';')]"; fi
  done
  echo "$(basename $(dirname $p))/$(basename $p): tests[$t] alarms=${alarms:-none}"
  git -C $REPO checkout -- . ; git -C $REPO clean -fdq src
done
