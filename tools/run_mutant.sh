#!/bin/bash
# usage: tools/run_mutant.sh <patch.diff> <ID> [<ID>...]  [TIER=quick]
# Applies a seeded change to /repo, runs the given checks, prints their verdicts, and undoes the change.
set -u
PATCH=$1; shift
REPO=${VERIF_REPO:-/repo}
cd $REPO || exit 2
if [ -n "$(git status --porcelain --untracked-files=no)" ]; then echo "/repo is dirty; refusing"; exit 2; fi
git apply "$PATCH" || { echo "patch does not apply"; exit 2; }
trap 'git -C $REPO checkout -- . >/dev/null 2>&1; git -C $REPO clean -fdq src >/dev/null 2>&1' EXIT
cd /verif
for id in "$@"; do
  out=$(./check "$id" --tier "${TIER:-quick}" 2>&1); rc=$?
  echo "[$id] exit=$rc $(echo "$out" | grep -c '^VIOLATION') violation line(s)"
  echo "$out" | grep -E "^VIOLATION|MACHINERY|BUILD FAILED|^  C[0-9][0-9]/" | cut -c1-260 | head -8
done
