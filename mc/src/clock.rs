//! Ownership of the wall clock: this binary defines `clock_gettime` itself, so
//! `SystemTime::now()` in the subject reads a per-thread virtual CLOCK_REALTIME
//! whenever a world has switched it on. All other clocks go to the kernel.
use std::cell::Cell;

thread_local! {
    static ENABLED: Cell<bool> = const { Cell::new(false) };
    /// nanoseconds since the epoch
    static NOW_NS: Cell<u64> = const { Cell::new(0) };
    static CALLS: Cell<u64> = const { Cell::new(0) };
}

pub const BASE_SECS: u64 = 1_800_000_000;

#[no_mangle]
pub unsafe extern "C" fn clock_gettime(clk: libc::clockid_t, ts: *mut libc::timespec) -> libc::c_int {
    if clk == libc::CLOCK_REALTIME && ENABLED.with(|e| e.get()) {
        // +1 ns per call: stamps are unique and reproducible.
        let now = NOW_NS.with(|n| {
            let v = n.get() + 1;
            n.set(v);
            v
        });
        CALLS.with(|c| c.set(c.get() + 1));
        (*ts).tv_sec = (now / 1_000_000_000) as libc::time_t;
        (*ts).tv_nsec = (now % 1_000_000_000) as _;
        return 0;
    }
    libc::syscall(libc::SYS_clock_gettime, clk as libc::c_long, ts) as libc::c_int
}

pub fn enable(start_ns: u64) {
    ENABLED.with(|e| e.set(true));
    NOW_NS.with(|n| n.set(start_ns));
    CALLS.with(|c| c.set(0));
}

pub fn disable() {
    ENABLED.with(|e| e.set(false));
}

pub fn advance_ms(ms: u64) {
    NOW_NS.with(|n| n.set(n.get() + ms * 1_000_000));
}

pub fn now_ns() -> u64 {
    NOW_NS.with(|n| n.get())
}

pub fn calls() -> u64 {
    CALLS.with(|c| c.get())
}
