//! Shared scenario data: keys, preimages, signed BOLT11 invoices, HTLC requests.
use std::hash::{Hash, Hasher};

use lightning_invoice::{Currency, InvoiceBuilder, PaymentSecret, RouteHint, RouteHintHop, RoutingFees};
use secp256k1::{
    hashes::{sha256, Hash as _},
    PublicKey, Secp256k1, SecretKey,
};

use crate::{
    messages::{Htlc, HtlcAcceptedRequest, Onion},
    tlv::{SerializedTlvStream, TlvEntry, ToBytes},
};

/// 128-bit running hash built from two independently keyed SipHashers (deterministic across runs).
#[derive(Clone)]
pub struct H128 {
    a: std::collections::hash_map::DefaultHasher,
    b: std::collections::hash_map::DefaultHasher,
}

impl Default for H128 {
    fn default() -> Self {
        Self::new()
    }
}

impl H128 {
    pub fn new() -> Self {
        let mut x = H128 {
            a: std::collections::hash_map::DefaultHasher::new(),
            b: std::collections::hash_map::DefaultHasher::new(),
        };
        x.b.write_u64(0x9e37_79b9_7f4a_7c15);
        x
    }
    pub fn add<T: Hash + ?Sized>(&mut self, t: &T) {
        t.hash(&mut self.a);
        t.hash(&mut self.b);
    }
    pub fn value(&self) -> u128 {
        ((self.a.finish() as u128) << 64) | self.b.finish() as u128
    }
    pub fn low(&self) -> u64 {
        self.a.finish()
    }
}

impl Hasher for H128 {
    fn finish(&self) -> u64 {
        self.a.finish()
    }
    fn write(&mut self, bytes: &[u8]) {
        self.a.write(bytes);
        self.b.write(bytes);
    }
}

pub fn local_privkey() -> SecretKey {
    SecretKey::from_slice(&[0x11; 32]).unwrap()
}
pub fn local_pubkey() -> PublicKey {
    PublicKey::from_secret_key(&Secp256k1::new(), &local_privkey())
}
pub fn dest_privkey() -> SecretKey {
    SecretKey::from_slice(&[0x22; 32]).unwrap()
}
pub fn dest_pubkey() -> PublicKey {
    PublicKey::from_secret_key(&Secp256k1::new(), &dest_privkey())
}
pub fn other_privkey() -> SecretKey {
    SecretKey::from_slice(&[0x33; 32]).unwrap()
}
pub fn other_pubkey() -> PublicKey {
    PublicKey::from_secret_key(&Secp256k1::new(), &other_privkey())
}

pub fn preimage(tag: u8) -> [u8; 32] {
    let mut p = [tag; 32];
    p[0] = 0xA0;
    p
}
pub fn hash_of(pre: &[u8]) -> sha256::Hash {
    <sha256::Hash as secp256k1::hashes::Hash>::hash(pre)
}
pub fn hash_hex(pre: &[u8]) -> String {
    hex::encode(hash_of(pre).to_byte_array())
}

#[derive(Clone, Debug, PartialEq, Eq, Hash)]
pub enum Hint {
    None,
    SelfLast,
    SelfNotLast,
    Other,
}

#[derive(Clone, Debug)]
pub struct InvoiceSpec {
    pub preimage_tag: u8,
    pub amount_msat: Option<u64>,
    pub description: String,
    pub hint: Hint,
    /// include an explicit payee field: None = recover from signature; Some(true) = matching; Some(false) = not the signer
    pub explicit_payee: Option<bool>,
}

impl InvoiceSpec {
    pub fn fixed(tag: u8, amount: u64) -> Self {
        InvoiceSpec {
            preimage_tag: tag,
            amount_msat: Some(amount),
            description: "Trampoline this".into(),
            hint: Hint::None,
            explicit_payee: None,
        }
    }
    pub fn amountless(tag: u8) -> Self {
        InvoiceSpec {
            amount_msat: None,
            ..Self::fixed(tag, 0)
        }
    }
    pub fn with_description(mut self, d: &str) -> Self {
        self.description = d.into();
        self
    }
    pub fn with_hint(mut self, h: Hint) -> Self {
        self.hint = h;
        self
    }
}

fn hop(src: PublicKey, scid: u64) -> RouteHintHop {
    RouteHintHop {
        cltv_expiry_delta: 80,
        fees: RoutingFees {
            base_msat: 1000,
            proportional_millionths: 10,
        },
        htlc_maximum_msat: Some(1_000_000_000),
        htlc_minimum_msat: Some(1_000),
        short_channel_id: scid,
        src_node_id: src,
    }
}

/// Build a signed BOLT11 invoice string. `signer`: the key that signs.
pub fn build_invoice(spec: &InvoiceSpec) -> String {
    let secp = Secp256k1::new();
    let pre = preimage(spec.preimage_tag);
    let mut b = InvoiceBuilder::new(Currency::Regtest)
        .description(spec.description.clone())
        .payment_hash(hash_of(&pre))
        .payment_secret(PaymentSecret([42u8; 32]))
        .timestamp(std::time::UNIX_EPOCH + std::time::Duration::from_secs(crate::clock::BASE_SECS))
        .min_final_cltv_expiry_delta(144);
    if let Some(a) = spec.amount_msat {
        b = b.amount_milli_satoshis(a);
    }
    match spec.hint {
        Hint::None => {}
        Hint::SelfLast => b = b.private_route(RouteHint(vec![hop(other_pubkey(), 7), hop(local_pubkey(), 8)])),
        Hint::SelfNotLast => b = b.private_route(RouteHint(vec![hop(local_pubkey(), 8), hop(other_pubkey(), 7)])),
        Hint::Other => b = b.private_route(RouteHint(vec![hop(other_pubkey(), 7)])),
    }
    match spec.explicit_payee {
        None => {}
        Some(true) => b = b.payee_pub_key(dest_pubkey()),
        Some(false) => b = b.payee_pub_key(other_pubkey()),
    }
    let key = dest_privkey();
    let inv = b
        .build_raw()
        .unwrap()
        .sign::<_, ()>(|h| Ok(secp.sign_ecdsa_recoverable(h, &key)))
        .unwrap();
    inv.to_string()
}

/// Corrupt the signature of a bech32 invoice while keeping the checksum valid is
/// not possible by string surgery; instead sign with a key and then flip the
/// recovery so that `check_signature` fails: we build a raw invoice with an
/// explicit payee that is not the signer (check_signature compares them).
pub fn build_invoice_bad_sig(spec: &InvoiceSpec) -> String {
    let mut s = spec.clone();
    s.explicit_payee = Some(false);
    build_invoice(&s)
}

/// Truncated-integer (tu64) encoding: big-endian, leading zero bytes stripped.
pub fn tu64(v: u64) -> Vec<u8> {
    let b = v.to_be_bytes();
    let skip = b.iter().take_while(|x| **x == 0).count();
    b[skip..].to_vec()
}

pub fn metadata(invoice: Option<&[u8]>, amount: Option<&[u8]>) -> Vec<u8> {
    let mut entries = Vec::new();
    if let Some(i) = invoice {
        entries.push(TlvEntry {
            typ: 33001,
            value: i.to_vec(),
        });
    }
    if let Some(a) = amount {
        entries.push(TlvEntry {
            typ: 33003,
            value: a.to_vec(),
        });
    }
    SerializedTlvStream::to_bytes(SerializedTlvStream::from(entries))
}

#[derive(Clone, Debug)]
pub struct HtlcSpec {
    pub name: String,
    pub id: u64,
    /// payment hash of the HTLC itself (hex)
    pub payment_hash: Vec<u8>,
    pub amount_msat: u64,
    pub cltv_expiry: u32,
    /// relative expiry is recomputed at (re)delivery as cltv_expiry - height unless fixed here
    pub cltv_expiry_relative: Option<i64>,
    pub forward_msat: Option<u64>,
    pub total_msat: Option<u64>,
    pub forward_scid: bool,
    /// value of onion record 16 (payment metadata), if any
    pub metadata: Option<Vec<u8>>,
    /// other onion records
    pub extra_records: Vec<(u64, Vec<u8>)>,
}

impl HtlcSpec {
    pub fn request(&self, height: u32) -> HtlcAcceptedRequest {
        let mut entries: Vec<TlvEntry> = Vec::new();
        let mut recs = self.extra_records.clone();
        if let Some(m) = &self.metadata {
            recs.push((16, m.clone()));
        }
        recs.sort_by_key(|r| r.0);
        for (t, v) in recs {
            entries.push(TlvEntry { typ: t, value: v });
        }
        HtlcAcceptedRequest {
            htlc: Htlc {
                amount_msat: self.amount_msat,
                id: self.id,
                cltv_expiry: self.cltv_expiry,
                cltv_expiry_relative: self.cltv_expiry_relative.unwrap_or(self.cltv_expiry as i64 - height as i64),
                payment_hash: self.payment_hash.clone(),
                short_channel_id: "1x2x3".parse().unwrap(),
            },
            onion: Onion {
                forward_msat: self.forward_msat,
                payload: entries.into(),
                short_channel_id: if self.forward_scid { Some("4x5x6".parse().unwrap()) } else { None },
                total_msat: self.total_msat,
            },
        }
    }

    /// The JSON lightningd would send for this HTLC (used by engine E and the serde entry tests).
    /// The onion records in wire order (record 16 = payment metadata included).
    pub fn records(&self) -> Vec<(u64, Vec<u8>)> {
        let mut recs = self.extra_records.clone();
        if let Some(m) = &self.metadata {
            recs.push((16, m.clone()));
        }
        recs.sort_by_key(|r| r.0);
        recs
    }

    /// The request as the plugin really receives it: lightningd's JSON (payload bytes written by the independent
    /// reference encoder) through the plugin's own serde entry, i.e. through its TLV *decoder*. Falls back to the
    /// directly built struct if that entry refuses the JSON (the serde entry itself is engine I's subject).
    pub fn wire_request(&self, height: u32) -> HtlcAcceptedRequest {
        match serde_json::from_value::<HtlcAcceptedRequest>(self.request_json(height)) {
            Ok(r) => r,
            Err(_) => self.request(height),
        }
    }

    pub fn request_json(&self, height: u32) -> serde_json::Value {
        let req = self.request(height);
        let mut payload = Vec::new();
        for (t, v) in self.records() {
            put_bigsize(&mut payload, t);
            put_bigsize(&mut payload, v.len() as u64);
            payload.extend_from_slice(&v);
        }
        let mut framed = Vec::new();
        put_bigsize(&mut framed, payload.len() as u64);
        framed.extend_from_slice(&payload);
        let mut onion = serde_json::json!({
            "payload": hex::encode(framed),
            "type": "tlv",
            "shared_secret": "0000000000000000000000000000000000000000000000000000000000000000",
        });
        if let Some(f) = req.onion.forward_msat {
            onion["forward_msat"] = serde_json::json!(f);
        }
        if let Some(t) = req.onion.total_msat {
            onion["total_msat"] = serde_json::json!(t);
        }
        if req.onion.short_channel_id.is_some() {
            onion["short_channel_id"] = serde_json::json!("4x5x6");
        }
        serde_json::json!({
            "onion": onion,
            "htlc": {
                "short_channel_id": "1x2x3",
                "id": req.htlc.id,
                "amount_msat": req.htlc.amount_msat,
                "cltv_expiry": req.htlc.cltv_expiry,
                "cltv_expiry_relative": req.htlc.cltv_expiry_relative,
                "payment_hash": hex::encode(&req.htlc.payment_hash),
            },
            "forward_to": "0000000000000000000000000000000000000000000000000000000000000000",
        })
    }
}

/// Independent BigSize writer (reference codec, not the subject's).
pub fn put_bigsize(out: &mut Vec<u8>, v: u64) {
    if v < 0xfd {
        out.push(v as u8);
    } else if v <= 0xffff {
        out.push(0xfd);
        out.extend_from_slice(&(v as u16).to_be_bytes());
    } else if v <= 0xffff_ffff {
        out.push(0xfe);
        out.extend_from_slice(&(v as u32).to_be_bytes());
    } else {
        out.push(0xff);
        out.extend_from_slice(&v.to_be_bytes());
    }
}
