//! Engine W ("world"): the real HtlcManager + ClnDatastore + PayPaymentProvider<Rpc>
//! + BlockWatcher, wired exactly as main.rs wires them, over a SimNode reached
//! through the cfg-guarded hook in rpc.rs. The explorer owns every event.
use std::{
    collections::{BTreeMap, BTreeSet},
    future::Future,
    hash::Hash,
    pin::Pin,
    sync::{
        atomic::{AtomicU64, Ordering},
        Arc, Mutex,
    },
    task::{Context, Poll},
    time::Duration,
};

use secp256k1::hashes::Hash as _;
use tokio::task::JoinHandle;

use crate::{
    block_watcher::{BlockProvider, BlockWatcher},
    common::{self, HtlcSpec, H128},
    email::{NotificationService, NotifyPaymentFailedRequest},
    explore::{Choice, Dev, Model, Violation},
    htlc_manager::{HtlcManager, HtlcManagerParams},
    messages::{BlockAdded, HtlcAcceptedResponse, TrampolineInfo, TrampolineRoutingPolicy},
    payment_provider::PayPaymentProvider,
    rpc::{verif_hook, Rpc},
    sched,
    sim::{Method, Part, PartStatus, PayOutcome, ReqObs, Sim, SimErr, SimNode},
    store::{ClnDatastore, Datastore, PaymentState},
};

pub type Mgr = HtlcManager<BlockWatcher, RecordingNotify, PayPaymentProvider<Rpc>, ClnDatastore>;

#[derive(Default)]
pub struct RecordingNotify {
    pub sent: Mutex<Vec<(String, String)>>,
}

#[async_trait::async_trait]
impl NotificationService for RecordingNotify {
    async fn notify_payment_failed(&self, req: NotifyPaymentFailedRequest) {
        self.sent
            .lock()
            .unwrap()
            .push((req.destination.to_string(), req.payment_hash.to_string()));
    }
}

/// What the reference classifier (written from the property text) says about a template.
#[derive(Clone, Debug, PartialEq, Eq)]
pub enum Class {
    /// not a (usable) trampoline request: must be answered `continue` at once
    NotTrampoline,
    /// trampoline request; `invoice` indexes WCfg::invoices
    Trampoline { invoice: usize, amount_msat: u64 },
    /// trampoline, but must be failed at once (self route hint disallowed)
    SelfHintRejected,
    /// payment hash of the HTLC differs from the invoice's: must never be held / paid
    /// (continue or fail are both acceptable)
    HashMismatch { invoice: usize },
}

#[derive(Clone, Debug)]
pub struct Template {
    pub spec: HtlcSpec,
    pub class: Class,
    /// deliverable only after all these templates have been answered
    pub after_answered: Vec<usize>,
}

#[derive(Clone, Debug)]
pub struct InvoiceData {
    pub bolt11: String,
    pub hash_hex: String,
    pub amount_msat: Option<u64>,
    pub payee: String,
}

#[derive(Clone, Debug)]
pub struct Freeze {
    pub hash_hex: String,
    pub after: u32,
    /// the same scenario without the frozen payment (baseline for the differential oracle)
    pub solo: Arc<WCfg>,
    pub other_hash_hex: String,
}

#[derive(Clone, Debug, Default)]
pub struct Seed {
    pub datastore: Vec<(Vec<String>, String, u64)>,
    pub parts: Vec<Part>,
    /// wall-clock offset (ms) of "now" relative to BASE (lets stored attempts look old)
    pub wall_offset_ms: u64,
    /// the wall clock was stepped back by this much (ms) between the run that wrote the history and this one
    /// (stored attempts then carry a time that lies in the future)
    pub wall_back_ms: u64,
}

#[derive(Clone, Debug)]
pub struct WCfg {
    pub name: String,
    pub fee_base: u32,
    pub fee_ppm: u32,
    pub policy_delta: u16,
    pub safety_delta: u16,
    pub mpp_timeout_ms: u64,
    pub payment_timeout_s: u64,
    pub allow_self_hints: bool,
    pub xpay: bool,
    pub start_height: u32,
    pub invoices: Vec<InvoiceData>,
    pub templates: Vec<Template>,
    pub preimages: Vec<(String, String)>,
    pub max_parts: u32,
    pub fail_codes: Vec<i32>,
    /// first entry = default advance
    pub advance_menu_ms: Vec<u64>,
    pub max_advances: u32,
    pub heights: Vec<u32>,
    pub max_height_events: u32,
    pub max_crashes: u32,
    pub crash_lose_responses: bool,
    pub downtimes_ms: Vec<u64>,
    pub write_faults: bool,
    pub read_faults: bool,
    pub max_faults: u32,
    pub select_dev: bool,
    pub reorder_delivery: bool,
    pub seed: Seed,
    pub probe: bool,
    /// C14: payment `hash_hex` is frozen (none of its events is ever taken) once `after` of its events happened
    pub freeze: Option<Freeze>,
    pub max_stalls: u32,
    /// how often the caller of a held htlc_accepted handler may go away (its future is dropped); 0 = never
    pub max_cancels: u32,
    /// `Hold` deviations: the next event is applied without letting the plugin run, so that it reaches the plugin
    /// together with the event after it
    pub max_holds: u32,
    /// do not explore run-queue orders other than first-in-first-out in this scenario
    pub no_picks: bool,
    /// how many times per history a task may be suspended at a preemption point (0 = not explored)
    pub max_parks: u32,
    /// a suspended task continues after this many further events at the latest (`Resume` = earlier)
    pub park_span: u32,
    /// default resolution of a part is failure (pay fails on the default path)
    pub default_part_fails: bool,
    /// C13 differential: request labels of the baseline run (same scenario without the pass-through HTLCs)
    pub baseline_reqs: Option<Vec<String>>,
    pub max_depth: usize,
    /// events (by label) applied before the exploration starts: the search begins in a non-initial state
    pub prefix: Vec<String>,
    pub info_cache: Arc<std::sync::OnceLock<BTreeMap<String, TrampolineInfo>>>,
    /// properties whose oracles are evaluated (others are monitored silently off)
    pub props: BTreeSet<&'static str>,
}

impl WCfg {
    pub fn base(name: &str) -> WCfg {
        WCfg {
            name: name.to_string(),
            fee_base: 0,
            fee_ppm: 5000,
            policy_delta: 1008,
            safety_delta: 34,
            mpp_timeout_ms: 60_000,
            payment_timeout_s: 60,
            allow_self_hints: true,
            xpay: false,
            start_height: 800_000,
            invoices: Vec::new(),
            templates: Vec::new(),
            preimages: Vec::new(),
            max_parts: 1,
            fail_codes: vec![204],
            advance_menu_ms: vec![60_000],
            max_advances: 3,
            heights: Vec::new(),
            max_height_events: 0,
            max_crashes: 0,
            crash_lose_responses: false,
            downtimes_ms: vec![0],
            write_faults: false,
            read_faults: false,
            max_faults: 1,
            select_dev: false,
            reorder_delivery: true,
            seed: Seed::default(),
            probe: false,
            freeze: None,
            max_stalls: 2,
            max_cancels: 0,
            max_holds: 0,
            no_picks: false,
            max_parks: 1,
            park_span: 1,
            default_part_fails: false,
            baseline_reqs: None,
            max_depth: 90,
            prefix: Vec::new(),
            info_cache: Arc::new(std::sync::OnceLock::new()),
            props: BTreeSet::new(),
        }
    }

    pub fn policy(&self) -> TrampolineRoutingPolicy {
        TrampolineRoutingPolicy {
            cltv_expiry_delta: self.policy_delta,
            fee_base_msat: self.fee_base,
            fee_proportional_millionths: self.fee_ppm,
        }
    }

    pub fn add_invoice(&mut self, spec: &common::InvoiceSpec) -> usize {
        let bolt11 = common::build_invoice(spec);
        let pre = common::preimage(spec.preimage_tag);
        let hash_hex = common::hash_hex(&pre);
        if !self.preimages.iter().any(|p| p.0 == hash_hex) {
            self.preimages.push((hash_hex.clone(), hex::encode(pre)));
        }
        self.invoices.push(InvoiceData {
            bolt11,
            hash_hex,
            amount_msat: spec.amount_msat,
            payee: common::dest_pubkey().to_string(),
        });
        self.invoices.len() - 1
    }

    /// Required total for `amount` under this policy (u128 reference).
    pub fn required(&self, amount: u64) -> u128 {
        amount as u128 + self.fee_base as u128 + (amount as u128 * self.fee_ppm as u128) / 1_000_000
    }

    pub fn add_htlc(&mut self, name: &str, invoice: usize, amount_msat: u64, total_msat: u64) -> usize {
        let inv = self.invoices[invoice].clone();
        let id = self.templates.len() as u64;
        let spec = HtlcSpec {
            name: name.to_string(),
            id,
            payment_hash: hex::decode(&inv.hash_hex).unwrap(),
            amount_msat,
            cltv_expiry: self.start_height + self.policy_delta as u32,
            cltv_expiry_relative: None,
            forward_msat: Some(amount_msat),
            total_msat: Some(total_msat),
            forward_scid: false,
            metadata: Some(common::metadata(Some(inv.bolt11.as_bytes()), None)),
            extra_records: vec![(2, common::tu64(amount_msat)), (4, common::tu64(self.start_height as u64 + 1008))],
        };
        self.templates.push(Template {
            spec,
            class: Class::Trampoline {
                invoice,
                amount_msat: inv.amount_msat.unwrap_or(0),
            },
            after_answered: Vec::new(),
        });
        self.templates.len() - 1
    }
}

#[derive(Clone, Debug, PartialEq, Eq, Hash)]
enum HState {
    Undelivered,
    Held { inc: u32 },
    Answered { resp: String },
    Panicked,
    /// the caller dropped the handler's future while the HTLC was held (no response is owed to it any more)
    Cancelled,
}

#[derive(Clone, Debug)]
enum Ev {
    Answer(u64),
    Spawn(usize),
    Resolve(usize, PartStatus),
    End(usize, PayOutcome),
    Deliver(usize),
    Advance(u64),
    Block(u32),
    Height(u32),
    Fault { id: u64, applied: bool, transport: bool },
    Crash { apply: Vec<u64>, lose: bool, downtime_ms: u64 },
    Select(u32),
    Stall(u64),
    Hold,
    /// let the plugin run (only offered when a held-back event would otherwise never reach it)
    Flush,
    /// the task that was suspended at a preemption point continues (nothing else happens)
    Resume,
    /// the caller of a held htlc_accepted handler goes away: its future is dropped
    Cancel(usize),
}

struct CountPolls<F> {
    inner: Pin<Box<F>>,
    polls: Arc<AtomicU64>,
    /// the handler has passed its first synchronisation operation (it has taken the payments lock once)
    passed: bool,
    /// set when this handler itself is the task that was suspended at a preemption point
    suspended: Arc<std::sync::atomic::AtomicBool>,
}

impl<F: Future> Future for CountPolls<F> {
    type Output = F::Output;
    fn poll(mut self: Pin<&mut Self>, cx: &mut Context<'_>) -> Poll<F::Output> {
        // nothing a handler does before it first takes the payments lock is visible to anyone
        self.polls.fetch_add(1, Ordering::Relaxed);
        let fresh = !self.passed;
        sched::set_fresh(fresh);
        let parked_before = sched::parked();
        let r = self.inner.as_mut().poll(cx);
        if sched::parked() > parked_before {
            self.suspended.store(true, Ordering::Relaxed);
        }
        if fresh && !sched::set_fresh(false) {
            self.passed = true;
        }
        r
    }
}

struct Incarnation {
    rt: tokio::runtime::Runtime,
    mgr: Arc<Mgr>,
    watcher: Arc<BlockWatcher>,
    notify: Arc<RecordingNotify>,
    _shutdown: tokio::sync::mpsc::Sender<()>,
    tasks: Vec<(usize, JoinHandle<HtlcAcceptedResponse>, Arc<AtomicU64>)>,
    block_tasks: Vec<JoinHandle<()>>,
}

/// Per payment-hash monitor state (oracle bookkeeping).
#[derive(Clone, Debug, Default, Hash)]
struct HashMon {
    /// a pay request was ever seen for this hash (any incarnation)
    ever_pay: bool,
    /// pay requests seen in the current incarnation
    pays_this_inc: u32,
    /// C03: HTLCs counted by the outstanding pay request (must stay held until fate known)
    paying_set: Vec<usize>,
    /// C04/C07: HTLCs that triggered a rejection while their set was incomplete and nothing was live
    poisoned: Vec<usize>,
    /// per poisoned HTLC: (template, reason mask 1=conflict 2=low expiry 4=low total, first of its set)
    poison_info: Vec<(usize, u8, bool)>,
    /// C04: (min expiry of the funding set, height told) when the held set first became fully funded
    funded_at: Option<(u32, u32)>,
    /// C04: (min expiry over the HTLCs held, height told) when the plugin last issued a durable-state write for
    /// this hash while a funded set was held and no pay was outstanding: the attempt is being initiated
    initiated_at: Option<(u32, u32)>,
    /// C11: virtual time (ms) at which the plugin last received an RPC answer concerning this hash
    last_answer_ms: Option<u64>,
    /// C11: the stored state the plugin read for this hash in this incarnation was Free/absent
    read_free_at: Option<u64>,
    /// time of the first completion of a part for this hash
    completed: bool,
    /// HTLCs that were held when, or delivered after, a part completed (C02 end of run)
    owed_preimage: Vec<usize>,
}

pub struct W {
    cfg: Arc<WCfg>,
    sim: SimNode,
    rpc_file: String,
    inc: Option<Incarnation>,
    inc_no: u32,
    hstate: Vec<HState>,
    delivered_order: Vec<usize>,
    delivered_at: BTreeMap<usize, u64>,
    vtime_ms: u64,
    advances: u32,
    height_events: u32,
    crashes: u32,
    faults: u32,
    read_faults: u32,
    told_height: u32,
    last_step_responses: Vec<usize>,
    view: H128,
    trace: Vec<String>,
    violations: Vec<Violation>,
    events: Vec<Ev>,
    mon: BTreeMap<String, HashMon>,
    oracle_store: Option<ClnDatastore>,
    infos: BTreeMap<String, TrampolineInfo>,
    last_effects: u64,
    last_parts: Vec<Part>,
    err: Option<String>,
    in_probe: bool,
    free_choice: bool,
    prefix_failed: bool,
    req_labels: Vec<String>,
    stalls: u32,
    cancels: u32,
    holds: u32,
    hold_armed: bool,
    held_evs: Vec<Ev>,
    /// answers handed over while the plugin was held back: they reach it (and are time-stamped) at the flush
    held_notes: Vec<(serde_json::Value, Method, crate::sim::SimResult)>,
    /// consecutive default time steps during which the plugin neither answered an HTLC nor issued a payment-related request
    idle_advances: u32,
    a_events: u32,
    history: Vec<String>,
    last_labels: Vec<String>,
    /// run-queue deviations for the next step / pick points of the last step / deviations used so far
    next_dev: Dev,
    last_step: sched::StepInfo,
    picks_used: u32,
    parks_used: u32,
    /// events since the task was suspended / a task stayed suspended over more than one event in this history
    park_age: u32,
    long_park: bool,
    /// the task that was suspended in this history is an htlc_accepted handler (set by the handler's wrapper)
    handler_suspended: Arc<std::sync::atomic::AtomicBool>,
    delivered_height: BTreeMap<usize, u32>,
    b_trace: Vec<String>,
    steps: usize,
}

pub fn make_info(cfg: &WCfg, inv: usize) -> TrampolineInfo {
    let i = &cfg.invoices[inv];
    let invoice: lightning_invoice::Bolt11Invoice = i.bolt11.parse().expect("scenario invoice parses");
    let payee = invoice.recover_payee_pub_key();
    TrampolineInfo {
        bolt11: i.bolt11.clone(),
        payee,
        amount_msat: i.amount_msat.unwrap_or(0),
        routing_policy: cfg.policy(),
        invoice,
    }
}

static WORLD_COUNTER: AtomicU64 = AtomicU64::new(0);

pub const FAIL_TRAMPOLINE: &str = "2019";
pub const FAIL_NODE: &str = "2002";

pub fn resp_string(r: &HtlcAcceptedResponse) -> String {
    match r {
        HtlcAcceptedResponse::Continue { payload: None } => "continue".into(),
        HtlcAcceptedResponse::Continue { payload: Some(p) } => format!("continue:{}", hex::encode(p)),
        HtlcAcceptedResponse::Fail { failure_message } => format!("fail:{}", hex::encode(failure_message)),
        HtlcAcceptedResponse::Resolve { payment_key } => format!("resolve:{}", hex::encode(payment_key)),
    }
}

impl W {
    fn has(&self, p: &str) -> bool {
        self.cfg.props.contains(p)
    }

    fn violate(&mut self, property: &'static str, clause: &'static str, shape: String, detail: String) {
        if self.in_probe && property != "C09" {
            return;
        }
        if !self.has(property) {
            return;
        }
        if (self.long_park || self.handler_suspended.load(Ordering::Relaxed))
            && !matches!(
                (property, clause),
                ("C05", "no-pay-while-live") | ("C08", "intent-before-pay") | ("C08", "succeeded-holds-preimage") | ("C02", "no-fail-while-live") | ("C06", "no-panic") | ("C06", "answered") | ("C01", "key-from-completed-payment") | ("C01", "key-hashes-to-htlc") | ("C07", "identical-responses") | ("C07", "paid-needs-rejected") | ("C04", "paid-needs-low-expiry")
            )
        {
            // While a task stays suspended over several events (possibly holding the payments lock), or when the
            // suspended task is an htlc_accepted handler (its HTLC was handed over, but is it registered?), the
            // reference bookkeeping of what the plugin "holds" no longer matches what it has registered. Only the
            // clauses that do not depend on it are judged in such a history.
            return;
        }
        if self.parks_used > 0 && matches!((property, clause), ("C04", "safe-expiry") | ("C06", "answered-within-timeout") | ("C11", "not-much-later")) {
            // These oracles compare instants, and take "what the plugin held when it issued a request" for "what it
            // held when it read its state". A task suspended between two of its own steps separates the two, and
            // is late by as much as the scheduler made it; the history says nothing about these clauses then.
            return;
        }
        self.trace.push(format!("!! VIOLATION {} {} {} :: {}", property, clause, shape, detail));
        self.violations.push(Violation {
            property,
            clause,
            shape,
            detail,
        });
    }

    fn boot(&mut self) {
        let rt = sched::new_runtime();
        let rpc = Arc::new(Rpc::new(self.rpc_file.clone()));
        let mut watcher = BlockWatcher::new(Arc::clone(&rpc));
        let (tx, rx) = tokio::sync::mpsc::channel(1);
        // main(): block_watcher.start() performs the startup height query.
        let started = rt.block_on(async {
            let h = tokio::spawn(async move {
                let r = watcher.start(rx).await;
                (watcher, r.is_ok())
            });
            sched::quiesce().await;
            h
        });
        // answer the startup getinfo
        let ids: Vec<u64> = self.sim.with(|s| s.pending.iter().map(|p| p.id).collect());
        for id in ids {
            self.sim.with(|s| s.answer_ok(id));
        }
        let (watcher, ok) = rt.block_on(async {
            sched::quiesce().await;
            started.await.expect("watcher start")
        });
        if !ok {
            self.err = Some("block watcher failed to start".into());
        }
        self.sim.with(|s| s.take_new_requests());
        self.told_height = self.sim.with(|s| s.height);
        let watcher = Arc::new(watcher);
        let notify = Arc::new(RecordingNotify::default());
        let provider = Arc::new(PayPaymentProvider::new(
            Arc::clone(&rpc),
            Duration::from_secs(self.cfg.payment_timeout_s),
            self.cfg.xpay,
        ));
        let store = Arc::new(ClnDatastore::new(Arc::clone(&rpc)));
        let mgr = Arc::new(HtlcManager::new(HtlcManagerParams {
            allow_self_route_hints: self.cfg.allow_self_hints,
            block_provider: Arc::clone(&watcher),
            cltv_delta: self.cfg.safety_delta,
            local_pubkey: common::local_pubkey(),
            mpp_timeout: Duration::from_millis(self.cfg.mpp_timeout_ms),
            notification_service: Arc::clone(&notify),
            payment_provider: provider,
            routing_policy: self.cfg.policy(),
            store,
        }));
        self.inc = Some(Incarnation {
            rt,
            mgr,
            watcher,
            notify,
            _shutdown: tx,
            tasks: Vec::new(),
            block_tasks: Vec::new(),
        });
        self.inc_no += 1;
        for m in self.mon.values_mut() {
            m.pays_this_inc = 0;
            m.paying_set.clear();
            m.poisoned.clear();
            m.poison_info.clear();
            m.funded_at = None;
            m.initiated_at = None;
            m.last_answer_ms = None;
            m.read_free_at = None;
        }
    }

    fn hash_of_template(&self, t: usize) -> String {
        hex::encode(&self.cfg.templates[t].spec.payment_hash)
    }

    fn held_for(&self, hash: &str) -> Vec<usize> {
        (0..self.hstate.len())
            .filter(|i| matches!(self.hstate[*i], HState::Held { .. }) && self.hash_of_template(*i) == hash)
            .collect()
    }

    /// HTLCs held whose *attached invoice* has payment hash `hash`.
    fn held_by_invoice(&self, hash: &str) -> Vec<usize> {
        (0..self.hstate.len())
            .filter(|i| {
                matches!(self.hstate[*i], HState::Held { .. })
                    && match &self.cfg.templates[*i].class {
                        Class::Trampoline { invoice, .. } | Class::HashMismatch { invoice } => self.cfg.invoices[*invoice].hash_hex == hash,
                        _ => false,
                    }
            })
            .collect()
    }

    fn deliverable(&self) -> Vec<usize> {
        (0..self.hstate.len())
            .filter(|i| {
                self.hstate[*i] == HState::Undelivered
                    && self.cfg.templates[*i]
                        .after_answered
                        .iter()
                        .all(|d| matches!(self.hstate[*d], HState::Answered { .. } | HState::Panicked | HState::Cancelled))
            })
            .collect()
    }

    fn durable(&mut self, hash: &str) -> Result<PaymentState, String> {
        let info = match self.infos.get(hash) {
            Some(i) => i.clone(),
            None => return Err("no invoice for hash".into()),
        };
        if self.oracle_store.is_none() {
            self.oracle_store = Some(ClnDatastore::new(Arc::new(Rpc::new(self.rpc_file.clone()))));
        }
        self.sim.with(|s| s.immediate = true);
        let store = self.oracle_store.as_ref().unwrap();
        let r = futures::executor::block_on(store.fetch_payment_info(&info));
        self.sim.with(|s| s.immediate = false);
        r.map_err(|e| format!("{:?}", e))
    }

    fn durable_kind(&mut self, hash: &str) -> String {
        match self.durable(hash) {
            Ok(PaymentState::Free) => "Free".into(),
            Ok(PaymentState::Pending { .. }) => "Pending".into(),
            Ok(PaymentState::Succeeded { preimage }) => format!("Succeeded:{}", hex::encode(preimage)),
            Err(e) => format!("Unreadable({})", e.lines().next().unwrap_or("")),
        }
    }

    // ------------------------------------------------------------ event enumeration

    fn compute_events(&mut self) -> Vec<(Ev, Choice)> {
        let cfg = Arc::clone(&self.cfg);
        let mut free: Vec<(Ev, String)> = Vec::new(); // default-class events, in priority order
        let mut alts: Vec<(Ev, String)> = Vec::new();
        if self.inc.is_none() || self.prefix_failed {
            return Vec::new();
        }
        let deliverable = self.deliverable();
        let frozen_now: Option<String> = cfg.freeze.as_ref().filter(|f| self.a_events >= f.after).map(|f| f.hash_hex.clone());
        let any_held = (0..self.hstate.len()).any(|i| matches!(self.hstate[i], HState::Held { .. }) && Some(self.hash_of_template(i)) != frozen_now);
        let allow_faults = self.faults < cfg.max_faults && !self.in_probe;
        let last_resp = !self.last_step_responses.is_empty();
        let allow_stall = self.stalls < cfg.max_stalls && !self.in_probe;
        let frozen_hash: Option<String> = cfg.freeze.as_ref().filter(|f| self.a_events >= f.after).map(|f| f.hash_hex.clone());
        let frozen_tag: Option<String> = frozen_hash.as_ref().map(|h| h[..4].to_string());
        let mut stalled_evs: Vec<(Ev, String)> = Vec::new();
        self.sim.with(|s| {
            // 1. answers: the oldest pending request that was not stalled is the default
            let mut first = true;
            for p in s.pending.iter() {
                if frozen_tag.is_some() && Sim::hash_tag(p.method, &p.params) == frozen_tag {
                    continue;
                }
                if s.answerable(p) {
                    let e = (Ev::Answer(p.id), format!("Answer({})", p.label));
                    if p.stalled {
                        stalled_evs.push(e);
                    } else {
                        if first {
                            free.push(e);
                            first = false;
                        } else {
                            alts.push(e);
                        }
                        if allow_stall {
                            alts.push((Ev::Stall(p.id), format!("Stall({})", p.label)));
                        }
                    }
                }
            }
            // 2. pay command progress
            for c in s.pays.iter().filter(|c| c.running && Some(&c.hash) != frozen_hash.as_ref()) {
                let own_pending: Vec<usize> = s
                    .parts
                    .iter()
                    .enumerate()
                    .filter(|(_, p)| p.cmd == Some(c.id) && p.status == PartStatus::Pending)
                    .map(|(i, _)| i)
                    .collect();
                let outcomes = s.allowed_outcomes(c.id);
                let spawn_ok = c.reject.is_none() && c.parts_created < cfg.max_parts;
                // default step
                if c.reject.is_some() {
                    free.push((Ev::End(c.id, outcomes[0].clone()), format!("PayEnd({},{})", s.cmd_label(c.id), outcomes[0].label())));
                } else if c.parts_created == 0 {
                    free.push((Ev::Spawn(c.id), format!("PaySpawnPart({})", s.cmd_label(c.id))));
                    for o in outcomes.iter() {
                        alts.push((Ev::End(c.id, o.clone()), format!("PayEnd({},{})", s.cmd_label(c.id), o.label())));
                    }
                } else if !own_pending.is_empty() {
                    // completion of the oldest pending part is listed under part resolutions (default there)
                    if spawn_ok {
                        alts.push((Ev::Spawn(c.id), format!("PaySpawnPart({})", s.cmd_label(c.id))));
                    }
                    for o in outcomes.iter() {
                        alts.push((Ev::End(c.id, o.clone()), format!("PayEnd({},{})", s.cmd_label(c.id), o.label())));
                    }
                } else {
                    free.push((Ev::End(c.id, outcomes[0].clone()), format!("PayEnd({},{})", s.cmd_label(c.id), outcomes[0].label())));
                    for o in outcomes.iter().skip(1) {
                        alts.push((Ev::End(c.id, o.clone()), format!("PayEnd({},{})", s.cmd_label(c.id), o.label())));
                    }
                    if spawn_ok {
                        alts.push((Ev::Spawn(c.id), format!("PaySpawnPart({})", s.cmd_label(c.id))));
                    }
                }
            }
            // 3. part resolutions
            for (i, part) in s.parts.iter().enumerate() {
                if part.status == PartStatus::Pending && Some(&part.hash) != frozen_hash.as_ref() {
                    let complete = (
                        Ev::Resolve(i, PartStatus::Complete),
                        format!("Part(g{}.p{}@{},Complete)", part.groupid, part.partid, &part.hash[..4]),
                    );
                    if cfg.default_part_fails {
                        alts.push(complete);
                    } else {
                        free.push(complete);
                    }
                    for (n, code) in cfg.fail_codes.iter().enumerate() {
                        let e = (
                            Ev::Resolve(i, PartStatus::Failed(*code)),
                            format!("Part(g{}.p{}@{},Fail{})", part.groupid, part.partid, &part.hash[..4], code),
                        );
                        if cfg.default_part_fails && n == 0 {
                            free.push(e);
                        } else {
                            alts.push(e);
                        }
                    }
                }
            }
        });
        // 4. deliveries
        let mut nth = 0;
        for t in deliverable.iter() {
            if frozen_hash.is_some() && Some(self.hash_of_template(*t)) == frozen_hash {
                continue;
            }
            let e = (Ev::Deliver(*t), format!("Deliver({})", cfg.templates[*t].spec.name));
            if nth == 0 {
                free.push(e);
            } else if cfg.reorder_delivery {
                alts.push(e);
            }
            nth += 1;
        }
        // 4b. stalled requests are answered by default only when nothing else is left to do
        for e in stalled_evs {
            if free.is_empty() {
                free.push(e);
            } else {
                alts.push(e);
            }
        }
        // 5. time
        if !cfg.advance_menu_ms.is_empty() {
            let d = cfg.advance_menu_ms[0];
            let budget = self.advances < cfg.max_advances;
            // the default advance (only offered when nothing else is left to do, see the
            // cost assignment below) is part of the drain and not budgeted
            if any_held && (budget || free.is_empty()) && self.idle_advances < 3 {
                free.push((Ev::Advance(d), format!("Advance({}ms)", d)));
            } else if !self.in_probe && budget {
                alts.push((Ev::Advance(d), format!("Advance({}ms)", d)));
            }
            if !self.in_probe && budget {
                for d in cfg.advance_menu_ms.iter().skip(1) {
                    alts.push((Ev::Advance(*d), format!("Advance({}ms)", d)));
                }
            }
        }
        if !self.in_probe && self.cancels < cfg.max_cancels {
            for i in 0..self.hstate.len() {
                if self.hstate[i] == (HState::Held { inc: self.inc_no }) {
                    alts.push((Ev::Cancel(i), format!("Cancel({})", cfg.templates[i].spec.name)));
                }
            }
        }
        if !self.in_probe {
            // 6. chain
            if self.height_events < cfg.max_height_events {
                let cur = self.sim.with(|s| s.height);
                for h in &cfg.heights {
                    alts.push((Ev::Block(*h), format!("Block({})", h)));
                    if *h != cur {
                        alts.push((Ev::Height(*h), format!("Height({})", h)));
                    }
                }
            }
            // 7. faults
            if allow_faults {
                self.sim.with(|s| {
                    for p in s.pending.iter() {
                        if frozen_tag.is_some() && Sim::hash_tag(p.method, &p.params) == frozen_tag {
                            continue;
                        }
                        match p.method {
                            Method::Datastore if cfg.write_faults => {
                                alts.push((
                                    Ev::Fault {
                                        id: p.id,
                                        applied: false,
                                        transport: false,
                                    },
                                    format!("Fault({},rejected)", p.label),
                                ));
                                alts.push((
                                    Ev::Fault {
                                        id: p.id,
                                        applied: true,
                                        transport: true,
                                    },
                                    format!("Fault({},applied-but-error)", p.label),
                                ));
                            }
                            Method::Listdatastore | Method::Listsendpays | Method::Waitsendpay | Method::Getinfo if cfg.read_faults => {
                                alts.push((
                                    Ev::Fault {
                                        id: p.id,
                                        applied: false,
                                        transport: true,
                                    },
                                    format!("Fault({},transport)", p.label),
                                ));
                            }
                            _ => {}
                        }
                    }
                });
            }
            // 8. crash
            if self.crashes < cfg.max_crashes && self.steps > 0 {
                let writes: Vec<(u64, String)> = self.sim.with(|s| {
                    s.pending
                        .iter()
                        .filter(|p| p.method == Method::Datastore)
                        .map(|p| (p.id, p.label.clone()))
                        .collect()
                });
                let mut variants: Vec<(Vec<u64>, String)> = vec![(vec![], String::new())];
                for (id, l) in &writes {
                    variants.push((vec![*id], format!(",applied={}", l)));
                }
                for (apply, al) in variants {
                    for lose in [false, true] {
                        if lose && !(cfg.crash_lose_responses && last_resp) {
                            continue;
                        }
                        for dt in &cfg.downtimes_ms {
                            alts.push((
                                Ev::Crash {
                                    apply: apply.clone(),
                                    lose,
                                    downtime_ms: *dt,
                                },
                                format!("Crash({}ms{}{})", dt, al, if lose { ",responses-lost" } else { "" }),
                            ));
                        }
                    }
                }
            }
            // 9. select start branch
            if cfg.select_dev {
                for i in [1u32, 2] {
                    alts.push((Ev::Select(i), format!("Select({})", i)));
                }
            }
        }
        if !self.held_evs.is_empty() && free.is_empty() {
            free.push((Ev::Flush, "Flush".to_string()));
        }
        if !self.in_probe && !self.hold_armed && self.holds < cfg.max_holds {
            alts.push((Ev::Hold, "Hold".to_string()));
        }
        if self.hold_armed {
            // only events that merely hand something to the plugin / change the node may be held back
            let ok = |e: &Ev| matches!(e, Ev::Answer(_) | Ev::Fault { .. } | Ev::Deliver(_) | Ev::Spawn(_) | Ev::Resolve(..) | Ev::End(..));
            free.retain(|e| ok(&e.0));
            alts.retain(|e| ok(&e.0));
            if free.is_empty() && alts.is_empty() {
                free.push((Ev::Flush, "Flush".to_string()));
            }
        }
        let mut out = Vec::new();
        if sched::parked() > 0 {
            // A preemption lasts as long as other tasks and the node need for their next steps, not as long as a
            // timeout: the clock does not move while a task is suspended (the timing clauses would otherwise
            // measure the scheduler, not the plugin).
            free.retain(|e| !matches!(e.0, Ev::Advance(_)));
            alts.retain(|e| !matches!(e.0, Ev::Advance(_)));
        }
        if sched::parked() > 0 && !self.hold_armed && !self.in_probe {
            out.push((Ev::Resume, Choice { label: "Resume".to_string(), cost: 0 }));
        }
        for (n, (e, l)) in free.into_iter().enumerate() {
            out.push((
                e,
                Choice {
                    label: l,
                    cost: if n == 0 { 0 } else { 1 },
                },
            ));
        }
        for (e, l) in alts {
            out.push((e, Choice { label: l, cost: 1 }));
        }
        out
    }

    // ------------------------------------------------------------ transition plumbing

    fn note_answer(&mut self, params: &serde_json::Value, method: Method, res: &crate::sim::SimResult) {
        if self.hold_armed {
            self.held_notes.push((params.clone(), method, res.clone()));
            return;
        }
        let ps = params.to_string();
        let hashes: Vec<String> = self.mon.keys().cloned().collect();
        let mut free_now: BTreeMap<String, bool> = BTreeMap::new();
        if method == Method::Listdatastore {
            for h in &hashes {
                if ps.contains(h.as_str()) {
                    let k = self.durable_kind(h);
                    free_now.insert(h.clone(), k == "Free");
                }
            }
        }
        for h in hashes {
            if ps.contains(&h) {
                let t = self.vtime_ms;
                let m = self.mon.get_mut(&h).unwrap();
                m.last_answer_ms = Some(t);
                if method == Method::Listdatastore {
                    // what the plugin has just read, interpreted by the code's own reader (format-independent)
                    let free = res.is_ok() && free_now.get(&h).copied().unwrap_or(false);
                    m.read_free_at = if free { Some(t) } else { None };
                }
            }
        }
    }

    fn after_event(&mut self, ev: &Ev) {
        if matches!(ev, Ev::Flush) {
            self.hold_armed = false;
        }
        if self.hold_armed && matches!(ev, Ev::Answer(_) | Ev::Fault { .. } | Ev::Deliver(_) | Ev::Spawn(_) | Ev::Resolve(..) | Ev::End(..)) {
            // held back: the plugin does not run yet; it will see this event together with the next one
            self.hold_armed = false;
            self.held_evs.push(ev.clone());
            self.steps += 1;
            return;
        }
        // answers that were held back reach the plugin now
        for (p, m, r) in std::mem::take(&mut self.held_notes) {
            self.note_answer(&p, m, &r);
        }
        // a task suspended at a preemption point continues on `Resume`, or after `park_span` further events (the
        // other tasks, the node and the clock go on meanwhile), behind whatever this event made runnable
        if sched::parked() > 0 {
            self.park_age += 1;
            if matches!(ev, Ev::Resume) || self.park_age >= self.cfg.park_span {
                sched::release_parked();
                self.park_age = 0;
                self.trace.push("  [scheduler] the suspended task continues".to_string());
            } else if self.park_age >= 1 {
                self.long_park = true;
            }
        }
        // run the plugin to quiescence
        let inc = self.inc.as_mut().unwrap();
        inc.rt.block_on(sched::quiesce_parkable());
        let sel = sched::take_select_log();
        self.view.add(&("sel", sel.len()));
        // panics in tasks the plugin spawned itself (lifecycles)
        let mut panics = sched::take_panics();
        // requests
        let reqs = self.sim.with(|s| s.take_new_requests());
        let before_resp_live: BTreeMap<String, (bool, bool, bool)> = self
            .mon
            .keys()
            .map(|h| (h.clone(), self.sim.with(|s| (s.any_pending(h), s.any_complete(h), s.running_pay(h).is_some()))))
            .collect();
        for r in &reqs {
            if let Some(f) = &self.cfg.freeze {
                if r.params.to_string().contains(&f.other_hash_hex) || Sim::hash_tag(r.method, &r.params).as_deref() == Some(&f.other_hash_hex[..4]) {
                    self.b_trace.push(format!("req {} {}", r.label, normalise_stamps(&r.params.to_string())));
                }
            } else if r.method != Method::Getinfo {
                self.b_trace.push(format!("req {} {}", r.label, normalise_stamps(&r.params.to_string())));
            }
            self.req_labels.push(r.label.clone());
            if r.method == Method::Datastore && r.label.starts_with("datastore[state]") {
                let hashes: Vec<String> = self.mon.keys().cloned().collect();
                for h in hashes {
                    if !r.label.contains(&format!("@{}", &h[..4])) {
                        continue;
                    }
                    let held: Vec<usize> = self.held_for(&h).into_iter().filter(|t| self.tramp_amount(*t).is_some()).collect();
                    let m = &self.mon[&h];
                    if m.funded_at.is_some() && m.paying_set.is_empty() && !held.is_empty() {
                        let e = held.iter().map(|t| self.cfg.templates[*t].spec.cltv_expiry).min().unwrap_or(u32::MAX);
                        let th = self.told_height;
                        self.mon.get_mut(&h).unwrap().initiated_at = Some((e, th));
                    }
                }
            }
            self.view.add(&("req", &r.label, r.params.to_string()));
            self.trace.push(format!("  plugin -> {} {}", r.label, compact(&r.params)));
        }
        // responses
        let mut responses: Vec<(usize, Result<HtlcAcceptedResponse, String>, u64)> = Vec::new();
        {
            let inc = self.inc.as_mut().unwrap();
            let mut i = 0;
            while i < inc.tasks.len() {
                if inc.tasks[i].1.is_finished() {
                    let (t, h, polls) = inc.tasks.remove(i);
                    let r = inc.rt.block_on(h);
                    // (a JoinError prints the runtime's task id, which differs from run to run: keep it out of the log)
                    responses.push((t, r.map_err(|e| if e.is_panic() { "the handler task panicked".to_string() } else { "the handler task was cancelled".to_string() }), polls.load(Ordering::Relaxed)));
                } else {
                    i += 1;
                }
            }
            inc.block_tasks.retain(|t| !t.is_finished());
        }
        panics.extend(sched::take_panics());
        for p in &panics {
            let msg = p.splitn(2, '\n').nth(1).unwrap_or(p).trim().to_string();
            let short: String = msg.chars().take(90).collect();
            self.trace.push(format!("  PANIC {}", p.replace('\n', " | ")));
            self.violate("C06", "no-panic", format!("panic: {}", short), p.replace('\n', " | "));
        }
        self.last_step_responses.clear();
        if let Ev::Deliver(t) = ev {
            if self.cfg.templates[*t].class == Class::NotTrampoline && !reqs.is_empty() && self.held_evs.is_empty() {
                let d = format!("{} caused {:?}", self.cfg.templates[*t].spec.name, reqs.iter().map(|r| r.label.clone()).collect::<Vec<_>>());
                self.violate("C13", "no-side-effects", "delivery of a non-trampoline HTLC caused an RPC call".into(), d);
            }
        }
        // oracles on requests first (they precede responses causally only for different hashes)
        for r in &reqs {
            self.on_request(r);
        }
        let mut by_hash: BTreeMap<String, Vec<(usize, String)>> = BTreeMap::new();
        let mut died: Vec<usize> = Vec::new();
        for (t, r, polls) in responses {
            match r {
                Ok(resp) => {
                    let rs = resp_string(&resp);
                    self.trace.push(format!("  plugin => {} : {}", self.cfg.templates[t].spec.name, short_resp(&rs)));
                    self.view.add(&("resp", t, &rs));
                    let is_b = match &self.cfg.freeze {
                        Some(f) => self.hash_of_template(t) == f.other_hash_hex,
                        None => true,
                    };
                    if is_b {
                        self.b_trace.push(format!("resp {} {}", self.cfg.templates[t].spec.name, rs));
                    }
                    self.on_response(t, &rs, polls, ev);
                    by_hash.entry(self.hash_of_template(t)).or_default().push((t, rs.clone()));
                    self.hstate[t] = HState::Answered { resp: rs };
                    self.last_step_responses.push(t);
                }
                Err(e) => {
                    self.trace.push(format!("  plugin => {} : HANDLER DIED {}", self.cfg.templates[t].spec.name, e));
                    self.hstate[t] = HState::Panicked;
                    died.push(t);
                }
            }
        }
        if matches!(ev, Ev::Advance(_)) && self.free_choice {
            let progress = !self.last_step_responses.is_empty() || reqs.iter().any(|r| r.method != Method::Getinfo);
            if progress {
                self.idle_advances = 0;
            } else {
                self.idle_advances += 1;
            }
        } else if !matches!(ev, Ev::Answer(_)) || !reqs.is_empty() || !self.last_step_responses.is_empty() {
            self.idle_advances = 0;
        }
        // C07: one resolution for the whole set
        for (h, rs) in by_hash {
            let class_tramp = rs.iter().any(|(t, _)| matches!(self.cfg.templates[*t].class, Class::Trampoline { .. }));
            if !class_tramp {
                continue;
            }
            let tramp: Vec<&(usize, String)> = rs
                .iter()
                .filter(|(t, _)| matches!(self.cfg.templates[*t].class, Class::Trampoline { .. }))
                .collect();
            let all_same = tramp.windows(2).all(|w| w[0].1 == w[1].1);
            if !all_same {
                let d = tramp.iter().map(|(t, r)| format!("{}={}", self.cfg.templates[*t].spec.name, short_resp(r))).collect::<Vec<_>>().join(", ");
                self.violate("C07", "identical-responses", "HTLCs of one set answered differently in the same decision".into(), d);
            }
            let still: Vec<usize> = self
                .held_for(&h)
                .into_iter()
                .filter(|t| matches!(self.cfg.templates[*t].class, Class::Trampoline { .. }) && !matches!(ev, Ev::Deliver(d) if d == t) && !self.held_evs.iter().any(|e| matches!(e, Ev::Deliver(d) if d == t)))
                .collect();
            let died_here: Vec<String> = died.iter().filter(|t| self.hash_of_template(**t) == h).map(|t| self.cfg.templates[*t].spec.name.clone()).collect();
            if !died_here.is_empty() && !tramp.is_empty() {
                self.violate(
                    "C07",
                    "whole-set",
                    "a decision answered part of the held set while the handlers of the other HTLCs died without a response".into(),
                    format!("answered {:?}, died {:?}", tramp.iter().map(|(t, _)| self.cfg.templates[*t].spec.name.clone()).collect::<Vec<_>>(), died_here),
                );
            }
            if !still.is_empty() && !tramp.is_empty() {
                let d = format!(
                    "answered {:?}, still held {:?}",
                    tramp.iter().map(|(t, _)| self.cfg.templates[*t].spec.name.clone()).collect::<Vec<_>>(),
                    still.iter().map(|t| self.cfg.templates[*t].spec.name.clone()).collect::<Vec<_>>()
                );
                self.violate("C07", "whole-set", "a decision answered only part of the held set".into(), d);
            }
        }
        let _ = before_resp_live;
        self.held_evs.clear();
        self.check_state_invariants();
        self.steps += 1;
    }

    fn tramp_amount(&self, t: usize) -> Option<(usize, u64)> {
        match &self.cfg.templates[t].class {
            Class::Trampoline { invoice, amount_msat } => Some((*invoice, *amount_msat)),
            _ => None,
        }
    }

    fn on_request(&mut self, r: &ReqObs) {
        if r.method != Method::Pay {
            return;
        }
        let cfg = Arc::clone(&self.cfg);
        let bolt11 = r.params.get("bolt11").and_then(|b| b.as_str()).unwrap_or("").to_string();
        let inv_idx = cfg.invoices.iter().position(|i| i.bolt11 == bolt11);
        let hash = match inv_idx {
            Some(i) => cfg.invoices[i].hash_hex.clone(),
            None => {
                // C03/C10: the invoice string must be one that was attached verbatim
                self.violate("C03", "bolt11-verbatim", "pay with a bolt11 string no held HTLC carries".into(), bolt11.clone());
                self.violate("C10", "bolt11-verbatim", "pay with a bolt11 string no held HTLC carries".into(), bolt11.clone());
                return;
            }
        };
        let inv = cfg.invoices[inv_idx.unwrap()].clone();
        let (pending, complete, other_running) = self.sim.with(|s| {
            let running = s.pays.iter().filter(|c| c.running && c.hash == hash).count();
            (s.any_pending(&hash), s.any_complete(&hash), running > 1)
        });
        // C05
        if pending || complete || other_running {
            let what = if complete {
                "a part has completed"
            } else if pending {
                "a part is pending"
            } else {
                "another pay command is running"
            };
            self.violate("C05", "no-pay-while-live", format!("pay issued while {}", what), format!("{} {}", r.label, compact(&r.params)));
        }
        // C08
        if self.has("C08") {
            let d = self.durable_kind(&hash);
            if d != "Pending" {
                self.violate("C08", "intent-before-pay", format!("pay issued while the durable record says {}", d.split(':').next().unwrap_or("")), r.label.clone());
            }
        }
        // C01: every held HTLC grouped into this payment has the invoice's hash
        let grouped = self.held_by_invoice(&hash);
        for t in &grouped {
            if self.hash_of_template(*t) != hash {
                self.violate(
                    "C01",
                    "pay-for-own-hash",
                    "pay issued for an invoice on behalf of an HTLC with a different payment hash".into(),
                    format!("htlc {} hash {} invoice hash {}", cfg.templates[*t].spec.name, self.hash_of_template(*t), hash),
                );
                self.violate(
                    "C10",
                    "hash-equal",
                    "HTLC whose payment hash differs from the invoice's was treated as trampoline (paid)".into(),
                    format!("htlc {}", cfg.templates[*t].spec.name),
                );
            }
        }
        // C03
        let held: Vec<usize> = self.held_for(&hash).into_iter().filter(|t| self.tramp_amount(*t).is_some()).collect();
        let sum: u128 = held.iter().map(|t| cfg.templates[*t].spec.amount_msat as u128).sum();
        let req_amount = r.params.get("amount_msat").and_then(amt);
        let declared: Option<u64> = held.iter().filter_map(|t| self.tramp_amount(*t)).map(|x| x.1).next();
        let amount: u64 = match inv.amount_msat {
            Some(a) => {
                if req_amount.is_some() {
                    self.violate("C03", "amount-param", "amount_msat passed for a fixed-amount invoice".into(), compact(&r.params));
                    self.violate("C10", "declared-amount", "amount_msat passed for a fixed-amount invoice".into(), compact(&r.params));
                }
                a
            }
            None => {
                match (req_amount, declared) {
                    (Some(a), Some(d)) if a == d => {}
                    _ => {
                        self.violate(
                            "C03",
                            "amount-param",
                            "amountless invoice paid with an amount other than the sender-declared one".into(),
                            format!("request {:?} declared {:?}", req_amount, declared),
                        );
                        self.violate(
                            "C10",
                            "declared-amount",
                            "amountless invoice paid with an amount other than the sender-declared one".into(),
                            format!("request {:?} declared {:?}", req_amount, declared),
                        );
                    }
                }
                req_amount.or(declared).unwrap_or(0)
            }
        };
        let need = cfg.required(amount);
        if sum < need {
            self.violate(
                "C03",
                "covered",
                "pay issued while the held HTLCs do not cover amount + policy fee".into(),
                format!("held {:?} sum {} need {}", held.iter().map(|t| cfg.templates[*t].spec.name.clone()).collect::<Vec<_>>(), sum, need),
            );
        }
        let maxfee = r.params.get("maxfee").and_then(amt);
        match maxfee {
            Some(f) if (f as u128) <= sum.saturating_sub(amount as u128) => {}
            _ => self.violate(
                "C03",
                "fee-budget",
                "maxfee exceeds held total minus amount to deliver (or is absent)".into(),
                format!("maxfee {:?} held {} amount {}", maxfee, sum, amount),
            ),
        }
        // C04
        let maxdelay = r.params.get("maxdelay").and_then(|a| a.as_u64());
        let funded = self.mon.get(&hash).and_then(|m| m.funded_at);
        let initiated = self.mon.get(&hash).and_then(|m| m.initiated_at);
        match (maxdelay, funded) {
            (Some(d), Some((e0, h0))) => {
                // two upper bounds every correct implementation respects: the funding moment's, and the one of
                // the moment the attempt was initiated (first durable intent write) — HTLCs held then fund it too
                let b0 = (e0 as i64 - h0 as i64 - cfg.safety_delta as i64).max(0) as u64;
                let (e, h, bound) = match initiated {
                    Some((e1, h1)) => {
                        let b1 = (e1 as i64 - h1 as i64 - cfg.safety_delta as i64).max(0) as u64;
                        if b1 < b0 {
                            (e1, h1, b1)
                        } else {
                            (e0, h0, b0)
                        }
                    }
                    None => (e0, h0, b0),
                };
                if d > cfg.policy_delta as u64 {
                    self.violate("C04", "policy-cap", "maxdelay above the policy CLTV delta".into(), format!("maxdelay {} policy {}", d, cfg.policy_delta));
                }
                if d > bound {
                    self.violate(
                        "C04",
                        "safe-expiry",
                        "maxdelay exceeds min incoming expiry - known height - safety delta".into(),
                        format!("maxdelay {} > {} (min expiry {} height told {} safety {})", d, bound, e, h, cfg.safety_delta),
                    );
                }
            }
            (None, _) => self.violate("C04", "safe-expiry", "pay without maxdelay".into(), compact(&r.params)),
            (Some(d), None) => {
                // not funded by the reference's count: C03 reports it; still check the policy cap
                if d > cfg.policy_delta as u64 {
                    self.violate("C04", "policy-cap", "maxdelay above the policy CLTV delta".into(), format!("maxdelay {} policy {}", d, cfg.policy_delta));
                }
            }
        }
        // C04/C07 second sentences, in a form that needs no bookkeeping of arrival order: whatever set the plugin is
        // paying for consists of HTLCs that were handed over and are unanswered; if those of them that do not ask for
        // a rejection by themselves (relative expiry below the policy delta, declared total too low) cannot cover
        // the payment, an HTLC that had to be rejected before the set was funded is funding it
        {
            let rejecting_alone = |w: &Self, t: usize| -> (bool, bool) {
                let tpl = &cfg.templates[t];
                let h = w.delivered_height.get(&t).copied().unwrap_or(0);
                let rel = tpl.spec.cltv_expiry_relative.unwrap_or(tpl.spec.cltv_expiry as i64 - h as i64);
                let amount_t = w.tramp_amount(t).map(|a| a.1).unwrap_or(0);
                let total = tpl.spec.total_msat.or(tpl.spec.forward_msat).unwrap_or(0);
                (rel < cfg.policy_delta as i64, (total as u128) < cfg.required(amount_t))
            };
            let ok_sum: u128 = held.iter().filter(|t| rejecting_alone(self, **t) == (false, false)).map(|t| cfg.templates[*t].spec.amount_msat as u128).sum();
            if ok_sum < cfg.required(amount) && !held.is_empty() {
                let bad: Vec<String> = held.iter().filter(|t| rejecting_alone(self, **t) != (false, false)).map(|t| cfg.templates[*t].spec.name.clone()).collect();
                let low = held.iter().any(|t| rejecting_alone(self, *t).0);
                if !bad.is_empty() {
                    self.violate(
                        "C07",
                        "paid-needs-rejected",
                        "pay issued although the unanswered HTLCs that do not ask for a rejection cannot fund it".into(),
                        format!("rejecting {:?}; the others sum to {} of {}", bad, ok_sum, cfg.required(amount)),
                    );
                    if low {
                        self.violate(
                            "C04",
                            "paid-needs-low-expiry",
                            "pay issued although it cannot be funded without an HTLC whose relative expiry is below the policy delta".into(),
                            format!("rejecting {:?}; the others sum to {} of {}", bad, ok_sum, cfg.required(amount)),
                        );
                    }
                }
            }
        }
        // retry_for (C19 glue, cheap to check here)
        // C04/C07 second sentences: a poisoned HTLC must never fund a pay
        let poisoned: Vec<usize> = self.mon.get(&hash).map(|m| m.poisoned.clone()).unwrap_or_default();
        for p in poisoned {
            if held.contains(&p) {
                let name = cfg.templates[p].spec.name.clone();
                let low = cfg.templates[p].spec.cltv_expiry_relative.map(|r| r < cfg.policy_delta as i64).unwrap_or(false)
                    || (cfg.templates[p].spec.cltv_expiry as i64 - self.sim.with(|s| s.height) as i64) < cfg.policy_delta as i64;
                self.violate(
                    "C07",
                    "rejected-set-not-paid",
                    "pay issued for a set containing an HTLC that triggered a rejection while the set was incomplete".into(),
                    format!("htlc {}", name),
                );
                if low {
                    self.violate(
                        "C04",
                        "low-expiry-rejects-set",
                        "pay issued for a set containing an HTLC whose relative expiry is below the policy delta".into(),
                        format!("htlc {}", name),
                    );
                }
            }
        }
        let m = self.mon.entry(hash.clone()).or_default();
        m.ever_pay = true;
        m.pays_this_inc += 1;
        m.paying_set = held;
    }

    fn on_response(&mut self, t: usize, rs: &str, polls: u64, ev: &Ev) {
        let cfg = Arc::clone(&self.cfg);
        let tpl = &cfg.templates[t];
        let hash = self.hash_of_template(t);
        let (pending, complete, running) = self.sim.with(|s| (s.any_pending(&hash), s.any_complete(&hash), s.running_pay(&hash).is_some()));
        let live = pending || complete || running;
        let name = tpl.spec.name.clone();
        // classification (C10 / C13 / C01)
        match &tpl.class {
            Class::NotTrampoline => {
                if !rs.starts_with("continue") {
                    self.violate("C13", "continue", "non-trampoline HTLC not answered with continue".into(), format!("{} => {}", name, short_resp(rs)));
                    self.violate("C10", "classification", "HTLC without a usable signed invoice was treated as trampoline".into(), format!("{} => {}", name, short_resp(rs)));
                }
                // "without waiting on any external event": the answer must come within the delivery's own
                // transition, before the environment does anything else (how often the future is polled is
                // the implementation's business)
                let _ = polls;
                if !matches!(ev, Ev::Deliver(d) if *d == t) && !self.held_evs.iter().any(|e| matches!(e, Ev::Deliver(d) if *d == t)) {
                    self.violate("C13", "no-wait", "non-trampoline HTLC answered only after waiting on an external event".into(), format!("{} answered during {:?}", name, ev));
                }
            }
            Class::SelfHintRejected => {
                if !rs.starts_with("fail:") {
                    self.violate("C10", "self-hint", "self-route-hint invoice not failed although disallowed".into(), format!("{} => {}", name, short_resp(rs)));
                }
            }
            Class::HashMismatch { .. } => {
                if rs.starts_with("resolve:") {
                    self.violate("C10", "hash-equal", "HTLC whose payment hash differs from the invoice's was settled".into(), format!("{} => {}", name, short_resp(rs)));
                }
            }
            Class::Trampoline { .. } => {
                if rs.starts_with("continue") {
                    self.violate("C10", "classification", "well-formed trampoline HTLC answered with continue".into(), format!("{} => {}", name, short_resp(rs)));
                }
            }
        }
        // C01
        if let Some(key) = rs.strip_prefix("resolve:") {
            let kb = hex::decode(key).unwrap_or_default();
            let ok_hash = common::hash_hex(&kb) == hash;
            if !ok_hash {
                self.violate(
                    "C01",
                    "key-hashes-to-htlc",
                    "HTLC settled with a key that does not hash to its payment hash".into(),
                    format!("{} hash {} key {}", name, hash, key),
                );
            } else if !complete {
                self.violate("C01", "key-from-completed-payment", "HTLC settled although no outgoing part for its hash completed".into(), format!("{} key {}", name, key));
            }
        }
        // C02
        if rs.starts_with("fail:") {
            let ever = self.sim.with(|s| s.parts.iter().any(|p| p.hash == hash) || s.pays.iter().any(|c| c.hash == hash));
            if ever && live {
                let what = if complete {
                    "a part is complete"
                } else if pending {
                    "a part is pending"
                } else {
                    "a pay command is running"
                };
                let mut shape = format!("held HTLC failed back while {}", what);
                if self.read_faults > 0 {
                    shape.push_str(" (after a read fault)");
                }
                self.violate("C02", "no-fail-while-live", shape, format!("{} => {}", name, short_resp(rs)));
                // seen from C16 end-to-end: the wrapper reported failure while not final
                self.violate("C16", "failure-only-when-final/e2e", format!("HTLC failed while {}{}", what, if self.read_faults > 0 { " (after a read fault)" } else { "" }), format!("{} => {}", name, short_resp(rs)));
            }
        }
        // C03: counted HTLCs stay held until the payment's fate is known
        let in_paying = self.mon.get(&hash).map(|m| m.paying_set.contains(&t)).unwrap_or(false);
        if in_paying && live && !complete {
            self.violate("C03", "stay-held", "an HTLC counted for a pay request was answered before the payment's fate was known".into(), format!("{} => {}", name, short_resp(rs)));
        }
        // C07 / C04: poisoned HTLCs must be failed
        let poisoned = self.mon.get(&hash).map(|m| m.poisoned.contains(&t)).unwrap_or(false);
        if poisoned && !rs.starts_with("fail:") && !complete {
            self.violate("C07", "rejected-set-fails", "an HTLC that triggered a rejection was not failed".into(), format!("{} => {}", name, short_resp(rs)));
        }
        // C12 third sentence: the first HTLC of a payment with no earlier attempt on record is answered
        // with fee-or-expiry-insufficient if its declared total / relative expiry is too low
        if self.has("C12") && cfg.mpp_timeout_ms > 0 {
            let info = self.mon.get(&hash).and_then(|m| m.poison_info.iter().find(|p| p.0 == t).cloned());
            if let Some((_, mask, true)) = info {
                let ever = self.sim.with(|s| s.parts.iter().any(|p| p.hash == hash) || s.pays.iter().any(|c| c.hash == hash));
                if mask & 1 == 0 && mask & 6 != 0 && !ever && self.durable_kind(&hash) == "Free" && !rs.starts_with("fail:201a") {
                    self.violate(
                        "C12",
                        "first-htlc-rejected-with-policy",
                        "first HTLC with too low declared total / relative expiry not answered with fee-or-expiry-insufficient".into(),
                        format!("{} => {}", name, short_resp(rs)),
                    );
                }
            }
        }
        // C13: a rewritten payload only drops record 16
        if let Some(p) = rs.strip_prefix("continue:") {
            // reference: the records the scenario put on the wire (not what the plugin's decoder made of them)
            let want: Vec<(u64, Vec<u8>)> = tpl.spec.records().into_iter().filter(|r| r.0 != 16).collect();
            let want = crate::engine_i::ref_encode_stream(&want);
            if hex::encode(&want) != p {
                self.violate(
                    "C13",
                    "rewrite-only-drops-metadata",
                    "rewritten onion payload differs from the input minus the payment-metadata record".into(),
                    format!("{} got {} want {}", name, short_resp(p), short_resp(&hex::encode(&want))),
                );
            }
        }
        // C12 / C19: fee-or-expiry failure carries the configured policy
        if let Some(msg) = rs.strip_prefix("fail:") {
            if msg.starts_with("201a") {
                let mut want = String::from("201a");
                want.push_str(&hex::encode(cfg.fee_base.to_be_bytes()));
                want.push_str(&hex::encode(cfg.fee_ppm.to_be_bytes()));
                want.push_str(&hex::encode(cfg.policy_delta.to_be_bytes()));
                if msg != want {
                    self.violate("C12", "failure-carries-policy", "fee-or-expiry-insufficient failure does not encode the configured policy".into(), format!("got {} want {}", msg, want));
                }
            }
        }
        // C11 (early failure)
        if self.has("C11") {
            if let Some(msg) = rs.strip_prefix("fail:") {
                let m = self.mon.get(&hash).cloned().unwrap_or_default();
                let clean = m.pays_this_inc == 0 && m.poisoned.is_empty() && !live && m.funded_at.is_none();
                if let (true, Some(t0)) = (clean, m.read_free_at) {
                    let deadline = t0 + cfg.mpp_timeout_ms;
                    if msg == FAIL_TRAMPOLINE {
                        if self.vtime_ms < deadline {
                            self.violate("C11", "not-before", "incomplete set failed before the MPP timeout elapsed".into(), format!("{} at {}ms deadline {}ms", name, self.vtime_ms, deadline));
                        }
                    } else if !msg.starts_with("201a") && cfg.mpp_timeout_ms > 0 {
                        self.violate("C11", "timeout-code", "incomplete fresh set failed with a code other than temporary trampoline failure".into(), format!("{} => {}", name, msg));
                    }
                }
            }
        }
        let _ = ev;
    }

    /// After every transition: C08 state invariant; C02 bookkeeping; C11 lateness.
    fn check_state_invariants(&mut self) {
        let cfg = Arc::clone(&self.cfg);
        let (effects, parts) = self.sim.with(|s| (s.effects, s.parts.clone()));
        let changed = effects != self.last_effects || parts != self.last_parts;
        let hashes: Vec<String> = self.mon.keys().cloned().collect();
        if changed {
            for h in &hashes {
                let (pending, complete) = self.sim.with(|s| (s.any_pending(h), s.any_complete(h)));
                if complete {
                    let newly = !self.mon[h].completed;
                    let held = self.held_for(h);
                    let m = self.mon.get_mut(h).unwrap();
                    m.completed = true;
                    if newly {
                        for t in held {
                            if !m.owed_preimage.contains(&t) {
                                m.owed_preimage.push(t);
                            }
                        }
                    }
                }
                if self.has("C08") && (pending || complete || effects != self.last_effects) {
                    let d = self.durable_kind(h);
                    if (pending || complete) && !(d == "Pending" || d.starts_with("Succeeded")) {
                        self.violate(
                            "C08",
                            "never-understates",
                            format!("durable record says {} while a part is {}", d.split('(').next().unwrap_or(""), if complete { "complete" } else { "pending" }),
                            format!("hash {}", &h[..8]),
                        );
                    }
                    if let Some(p) = d.strip_prefix("Succeeded:") {
                        if common::hash_hex(&hex::decode(p).unwrap_or_default()) != *h {
                            self.violate("C08", "succeeded-holds-preimage", "succeeded record holds a value that is not a preimage of the hash".into(), format!("hash {} value {}", &h[..8], p));
                        }
                    }
                }
            }
            self.last_effects = effects;
            self.last_parts = parts;
        }
        // C04: funding moment
        for h in &hashes {
            if self.mon[h].funded_at.is_none() {
                let held: Vec<usize> = self.held_for(h).into_iter().filter(|t| self.tramp_amount(*t).is_some()).collect();
                if held.is_empty() {
                    continue;
                }
                let sum: u128 = held.iter().map(|t| cfg.templates[*t].spec.amount_msat as u128).sum();
                let amount = self.tramp_amount(held[0]).unwrap().1;
                if sum >= cfg.required(amount) {
                    // funding set = held HTLCs in delivery order up to the one that completes the sum
                    let mut acc = 0u128;
                    let mut e = u32::MAX;
                    for t in self.delivered_order.clone() {
                        if held.contains(&t) {
                            acc += cfg.templates[t].spec.amount_msat as u128;
                            e = e.min(cfg.templates[t].spec.cltv_expiry);
                            if acc >= cfg.required(amount) {
                                break;
                            }
                        }
                    }
                    let th = self.told_height;
                    self.mon.get_mut(h).unwrap().funded_at = Some((e, th));
                }
            } else if self.held_for(h).is_empty() {
                self.mon.get_mut(h).unwrap().funded_at = None;
                self.mon.get_mut(h).unwrap().initiated_at = None;
            }
        }
    }

    /// C11 upper bound, evaluated after an Advance transition.
    fn check_lateness(&mut self) {
        if !self.has("C11") && !self.has("C06") {
            return;
        }
        let cfg = Arc::clone(&self.cfg);
        let hashes: Vec<String> = self.mon.keys().cloned().collect();
        for h in hashes {
            let held: Vec<usize> = self.held_for(&h).into_iter().filter(|t| self.tramp_amount(*t).is_some()).collect();
            if held.is_empty() {
                continue;
            }
            let m = self.mon[&h].clone();
            let live = self.sim.with(|s| s.live(&h));
            let rpc_pending = self.sim.with(|s| s.pending.iter().any(|p| p.params.to_string().contains(&h)));
            if live || rpc_pending || m.funded_at.is_some() {
                continue;
            }
            // reference instant: the last RPC answer the plugin got about this hash; if it never asked anything
            // (and nothing is pending, checked above) the plugin "began waiting" when the oldest held HTLC arrived
            let oldest_delivery = held.iter().filter_map(|t| self.delivered_at.get(t).copied()).min();
            if let Some(t0) = m.last_answer_ms.or(oldest_delivery) {
                // every held HTLC of this hash was delivered before now; the plugin read the state at t0 (or later answers)
                let first_delivery_before = true;
                if first_delivery_before && self.vtime_ms >= t0 + cfg.mpp_timeout_ms {
                    let names: Vec<String> = held.iter().map(|t| cfg.templates[*t].spec.name.clone()).collect();
                    self.violate(
                        "C11",
                        "not-much-later",
                        "incomplete set still held after a full MPP timeout since the plugin last heard about it".into(),
                        format!("{:?} now {}ms last answer {}ms timeout {}ms", names, self.vtime_ms, t0, cfg.mpp_timeout_ms),
                    );
                    self.violate(
                        "C06",
                        "answered-within-timeout",
                        "HTLCs of a set that never completes still unanswered one MPP timeout after the stored state was read".into(),
                        format!("{:?}", names),
                    );
                }
            }
        }
    }

    fn do_crash(&mut self, apply: &[u64], lose: bool, downtime_ms: u64) {
        // the node dies: runtime, tasks, pending RPCs all gone
        if let Some(inc) = self.inc.take() {
            drop(inc);
        }
        sched::take_panics();
        sched::take_select_log();
        sched::clear_select_queue();
        sched::drop_parked();
        self.park_age = 0;
        self.sim.with(|s| s.crash(apply));
        if lose {
            for t in self.last_step_responses.clone() {
                self.hstate[t] = HState::Undelivered;
            }
        }
        for h in self.hstate.iter_mut() {
            if matches!(h, HState::Held { .. }) {
                *h = HState::Undelivered;
            }
        }
        self.last_step_responses.clear();
        self.hold_armed = false;
        self.held_evs.clear();
        self.held_notes.clear();
        self.crashes += 1;
        crate::clock::advance_ms(downtime_ms);
        self.vtime_ms += downtime_ms;
        self.boot();
        self.check_state_invariants();
        self.steps += 1;
    }

    /// Does this event belong to the payment that C14 freezes?
    fn is_a_event(&self, ev: &Ev) -> bool {
        let f = match &self.cfg.freeze {
            Some(f) => f,
            None => return false,
        };
        let tag = Some(f.hash_hex[..4].to_string());
        match ev {
            Ev::Answer(id) | Ev::Stall(id) | Ev::Fault { id, .. } => self.sim.with(|s| {
                s.pending_index(*id)
                    .map(|i| Sim::hash_tag(s.pending[i].method, &s.pending[i].params) == tag)
                    .unwrap_or(false)
            }),
            Ev::Spawn(c) | Ev::End(c, _) => self.sim.with(|s| s.pays[*c].hash == f.hash_hex),
            Ev::Resolve(i, _) => self.sim.with(|s| s.parts[*i].hash == f.hash_hex),
            Ev::Deliver(t) => self.hash_of_template(*t) == f.hash_hex,
            _ => false,
        }
    }

    fn apply_ev(&mut self, ev: &Ev) {
        if self.is_a_event(ev) {
            self.a_events += 1;
        }
        match ev {
            Ev::Stall(id) => {
                self.stalls += 1;
                self.sim.with(|s| {
                    if let Some(i) = s.pending_index(*id) {
                        s.pending[i].stalled = true;
                    }
                });
                self.view.add(&("stall", id));
                self.steps += 1;
            }
            Ev::Answer(id) => {
                let (m, params) = self.sim.with(|s| {
                    let i = s.pending_index(*id).unwrap();
                    (s.pending[i].method, s.pending[i].params.clone())
                });
                let r = self.sim.with(|s| s.answer_ok(*id));
                self.view.add(&("ans", id, format!("{:?}", r)));
                self.trace.push(format!("  node -> {}", compact_res(&r)));
                if m == Method::Getinfo {
                    if let Ok(v) = &r {
                        let h = v.get("blockheight").and_then(|b| b.as_u64()).unwrap_or(0) as u32;
                        self.told_height = self.told_height.max(h);
                    }
                }
                self.note_answer(&params, m, &r);
                self.after_event(ev);
            }
            Ev::Fault { id, applied, transport } => {
                let (m, params) = self.sim.with(|s| {
                    let i = s.pending_index(*id).unwrap();
                    (s.pending[i].method, s.pending[i].params.clone())
                });
                self.faults += 1;
                if m != Method::Datastore {
                    self.read_faults += 1;
                }
                let err = if *transport {
                    SimErr::Transport("connection reset by peer".into())
                } else {
                    SimErr::rpc(-32603, "datastore: database error")
                };
                let r = self.sim.with(|s| s.answer_fault(*id, *applied, err));
                self.view.add(&("fault", id, applied, format!("{:?}", r)));
                self.note_answer(&params, m, &r);
                self.after_event(ev);
            }
            Ev::Spawn(c) => {
                self.sim.with(|s| s.spawn_part(*c));
                self.after_event(ev);
            }
            Ev::Resolve(i, st) => {
                self.sim.with(|s| s.resolve_part(*i, *st));
                self.after_event(ev);
            }
            Ev::End(c, o) => {
                let hash = self.sim.with(|s| s.pays[*c].hash.clone());
                let r = self.sim.with(|s| s.end_pay(*c, o));
                self.view.add(&("payend", c, format!("{:?}", r)));
                self.trace.push(format!("  node -> {}", compact_res(&r)));
                self.note_answer(&serde_json::json!({ "payment_hash": hash }), Method::Pay, &r);
                self.after_event(ev);
            }
            Ev::Deliver(t) => {
                let cfg = Arc::clone(&self.cfg);
                let height = self.sim.with(|s| s.height);
                let req = cfg.templates[*t].spec.wire_request(height);
                self.view.add(&("deliver", t, height));
                // bookkeeping for rejection triggers (C04 / C07), before the plugin sees it
                self.note_delivery(*t, height);
                let polls = Arc::new(AtomicU64::new(0));
                let inc = self.inc.as_mut().unwrap();
                let mgr = Arc::clone(&inc.mgr);
                let fut = CountPolls {
                    inner: Box::pin(async move { mgr.handle_htlc(&req).await }),
                    polls: Arc::clone(&polls),
                    passed: false,
                    suspended: Arc::clone(&self.handler_suspended),
                };
                let h = {
                    let _g = inc.rt.enter();
                    tokio::spawn(fut)
                };
                inc.tasks.push((*t, h, polls));
                self.hstate[*t] = HState::Held { inc: self.inc_no };
                self.delivered_order.push(*t);
                self.delivered_at.insert(*t, self.vtime_ms);
                self.delivered_height.insert(*t, height);
                self.after_event(ev);
            }
            Ev::Advance(ms) => {
                if !self.free_choice {
                    self.advances += 1;
                }
                self.vtime_ms += ms;
                crate::clock::advance_ms(*ms);
                self.view.add(&("adv", ms));
                let inc = self.inc.as_mut().unwrap();
                let d = Duration::from_millis(*ms);
                inc.rt.block_on(async move {
                    tokio::time::advance(d).await;
                });
                self.after_event(ev);
                self.check_lateness();
            }
            Ev::Block(h) => {
                self.height_events += 1;
                self.sim.with(|s| s.height = s.height.max(*h));
                self.view.add(&("block", h));
                self.told_height = self.told_height.max(*h);
                let inc = self.inc.as_mut().unwrap();
                let w = Arc::clone(&inc.watcher);
                let hh = *h;
                let jh = {
                    let _g = inc.rt.enter();
                    tokio::spawn(async move { w.new_block(&BlockAdded { height: hh }).await })
                };
                inc.block_tasks.push(jh);
                self.after_event(ev);
            }
            Ev::Height(h) => {
                self.height_events += 1;
                self.sim.with(|s| s.height = *h);
                self.after_event(ev);
            }
            Ev::Cancel(t) => {
                self.cancels += 1;
                self.view.add(&("cancel", t));
                let inc = self.inc.as_mut().unwrap();
                if let Some(pos) = inc.tasks.iter().position(|x| x.0 == *t) {
                    let (_, h, _) = inc.tasks.remove(pos);
                    h.abort();
                }
                self.hstate[*t] = HState::Cancelled;
                self.after_event(ev);
            }
            Ev::Flush | Ev::Resume => {
                self.after_event(ev);
            }
            Ev::Hold => {
                self.holds += 1;
                self.hold_armed = true;
                self.view.add(&"hold");
                self.steps += 1;
            }
            Ev::Select(i) => {
                sched::queue_select(*i);
                self.view.add(&("select", i));
                self.steps += 1;
            }
            Ev::Crash { apply, lose, downtime_ms } => {
                self.view.add(&("crash", apply, lose, downtime_ms));
                self.do_crash(apply, *lose, *downtime_ms);
            }
        }
    }

    /// Reference bookkeeping at delivery: does this HTLC trigger a rejection of a still-incomplete set?
    fn note_delivery(&mut self, t: usize, height: u32) {
        let cfg = Arc::clone(&self.cfg);
        let tpl = &cfg.templates[t];
        let (inv, amount) = match &tpl.class {
            Class::Trampoline { invoice, amount_msat } => (*invoice, *amount_msat),
            _ => return,
        };
        let hash = self.hash_of_template(t);
        let live = self.sim.with(|s| s.live(&hash));
        let held: Vec<usize> = self.held_for(&hash).into_iter().filter(|x| self.tramp_amount(*x).is_some()).collect();
        let sum_before: u128 = held.iter().map(|x| cfg.templates[*x].spec.amount_msat as u128).sum();
        let first = held.first().and_then(|x| self.tramp_amount(*x));
        let amount_ref = first.map(|f| f.1).unwrap_or(amount);
        let funded_before = !held.is_empty() && sum_before >= cfg.required(amount_ref);
        let rel = tpl.spec.cltv_expiry_relative.unwrap_or(tpl.spec.cltv_expiry as i64 - height as i64);
        let total = tpl.spec.total_msat.or(tpl.spec.forward_msat).unwrap_or(0);
        let conflict = match first {
            Some((i0, a0)) => cfg.invoices[i0].bolt11 != cfg.invoices[inv].bolt11 || a0 != amount,
            None => false,
        };
        let low_expiry = rel < cfg.policy_delta as i64;
        let low_total = (total as u128) < cfg.required(amount);
        let rejecting = conflict || low_expiry || low_total;
        let m = self.mon.entry(hash.clone()).or_default();
        if m.completed && !m.owed_preimage.contains(&t) {
            m.owed_preimage.push(t);
        }
        if rejecting && !funded_before && !live {
            // stored state may say a payment already succeeded: then settling is right; handled by `complete` at response time
            m.poisoned.push(t);
            let mask = (conflict as u8) | ((low_expiry as u8) << 1) | ((low_total as u8) << 2);
            m.poison_info.push((t, mask, held.is_empty()));
        }
    }

    fn run_default_to_end(&mut self, max_steps: usize) {
        for _ in 0..max_steps {
            let evs = self.compute_events();
            if evs.is_empty() || evs[0].1.cost > 0 {
                return;
            }
            let ev = evs[0].0.clone();
            self.trace.push(format!("[probe] {}", evs[0].1.label));
            self.free_choice = true;
            self.apply_ev(&ev);
        }
    }
}

/// Replace wall-clock derived stamps (attempt ids: 19-digit nanosecond counts) by a placeholder.
pub fn normalise_stamps(s: &str) -> String {
    let mut out = String::new();
    let mut run = String::new();
    for c in s.chars().chain(std::iter::once(' ')) {
        if c.is_ascii_digit() {
            run.push(c);
        } else {
            if run.len() >= 19 {
                out.push_str("<stamp>");
            } else {
                out.push_str(&run);
            }
            run.clear();
            out.push(c);
        }
    }
    out.pop();
    out
}

/// Amounts travel as numbers or as "<n>msat" strings.
pub fn amt(v: &serde_json::Value) -> Option<u64> {
    match v {
        serde_json::Value::Number(n) => n.as_u64(),
        serde_json::Value::String(s) => s.trim_end_matches("msat").parse().ok(),
        _ => None,
    }
}

fn compact(v: &serde_json::Value) -> String {
    let s = v.to_string();
    shorten(&s)
}

fn shorten(s: &str) -> String {
    // shorten long hex / bech32 strings for readable traces
    let mut out = String::new();
    let mut run = String::new();
    let flush = |run: &mut String, out: &mut String| {
        if run.len() > 24 {
            out.push_str(&run[..8]);
            out.push('…');
            out.push_str(&run[run.len() - 4..]);
        } else {
            out.push_str(run);
        }
        run.clear();
    };
    for c in s.chars() {
        if c.is_ascii_alphanumeric() {
            run.push(c);
        } else {
            flush(&mut run, &mut out);
            out.push(c);
        }
    }
    flush(&mut run, &mut out);
    out
}

fn compact_res(r: &crate::sim::SimResult) -> String {
    match r {
        Ok(v) => format!("ok {}", compact(v)),
        Err(e) => format!("error {:?}", e),
    }
}

pub fn short_resp(r: &str) -> String {
    shorten(r)
}

impl Model for W {
    type Cfg = Arc<WCfg>;

    fn new(cfg: &Arc<WCfg>) -> Self {
        sched::take_panics();
        sched::own_select();
        crate::clock::enable(crate::clock::BASE_SECS * 1_000_000_000 + cfg.seed.wall_offset_ms * 1_000_000 - cfg.seed.wall_back_ms * 1_000_000);
        let mut sim = Sim::new(common::local_pubkey().to_string());
        sim.height = cfg.start_height;
        for (h, p) in &cfg.preimages {
            sim.preimages.insert(h.clone(), p.clone());
        }
        for (k, v, g) in &cfg.seed.datastore {
            sim.datastore.insert(k.clone(), (v.as_bytes().to_vec(), *g));
        }
        sim.parts = cfg.seed.parts.clone();
        let sim = SimNode::new(sim);
        let rpc_file = format!("sim-{}", WORLD_COUNTER.fetch_add(1, Ordering::Relaxed));
        verif_hook::register(&rpc_file, Arc::new(sim.clone()));
        // parsed once per scenario (signature recovery is the most expensive step of building a world)
        let infos: BTreeMap<String, TrampolineInfo> = cfg
            .info_cache
            .get_or_init(|| {
                let mut infos = BTreeMap::new();
                for inv in &cfg.invoices {
                    // an invoice whose signature does not verify does not parse; it can never be stored or paid
                    if let Ok(invoice) = inv.bolt11.parse::<lightning_invoice::Bolt11Invoice>() {
                        let payee = invoice.recover_payee_pub_key();
                        infos.entry(inv.hash_hex.clone()).or_insert(TrampolineInfo {
                            bolt11: inv.bolt11.clone(),
                            payee,
                            amount_msat: inv.amount_msat.unwrap_or(0),
                            routing_policy: cfg.policy(),
                            invoice,
                        });
                    }
                }
                infos
            })
            .clone();
        let mut mon = BTreeMap::new();
        for inv in &cfg.invoices {
            mon.entry(inv.hash_hex.clone()).or_insert_with(HashMon::default);
        }
        for t in &cfg.templates {
            mon.entry(hex::encode(&t.spec.payment_hash)).or_insert_with(HashMon::default);
        }
        let mut w = W {
            cfg: Arc::clone(cfg),
            sim,
            rpc_file,
            inc: None,
            inc_no: 0,
            hstate: vec![HState::Undelivered; cfg.templates.len()],
            delivered_order: Vec::new(),
            delivered_at: BTreeMap::new(),
            vtime_ms: 0,
            advances: 0,
            height_events: 0,
            crashes: 0,
            faults: 0,
            read_faults: 0,
            told_height: 0,
            last_step_responses: Vec::new(),
            view: H128::new(),
            trace: vec![format!("scenario {}", cfg.name)],
            violations: Vec::new(),
            events: Vec::new(),
            mon,
            oracle_store: None,
            infos,
            last_effects: 0,
            last_parts: Vec::new(),
            err: None,
            in_probe: false,
            free_choice: false,
            prefix_failed: false,
            req_labels: Vec::new(),
            stalls: 0,
            cancels: 0,
            holds: 0,
            hold_armed: false,
            held_evs: Vec::new(),
            held_notes: Vec::new(),
            idle_advances: 0,
            a_events: 0,
            history: Vec::new(),
            last_labels: Vec::new(),
            next_dev: Dev::None,
            last_step: sched::StepInfo::default(),
            picks_used: 0,
            parks_used: 0,
            park_age: 0,
            long_park: false,
            handler_suspended: Arc::new(std::sync::atomic::AtomicBool::new(false)),
            delivered_height: BTreeMap::new(),
            b_trace: Vec::new(),
            steps: 0,
        };
        w.boot();
        w.last_parts = w.sim.with(|s| s.parts.clone());
        // The prefix is a small script: plain labels of node-side events and deliveries, plus directives that do not
        // depend on which RPCs the plugin happens to issue (so that a harmless refactoring of the plugin does not
        // break the scenario): "@default-until-pay" = default events until a pay command runs,
        // "@stall-oldest" = delay the oldest pending request.
        'prefix: for l in cfg.prefix.iter() {
            let mut guard = 0;
            loop {
                let evs = w.compute_events();
                let pick: Option<usize> = if l == "@default-until-pay" {
                    if w.sim.with(|s| s.pays.iter().any(|c| c.running)) {
                        break;
                    }
                    if evs.first().map(|e| e.1.cost == 0).unwrap_or(false) {
                        Some(0)
                    } else {
                        None
                    }
                } else if l == "@answers" {
                    // answer whatever the plugin is asking right now (default answers only)
                    match evs.first() {
                        Some(e) if e.1.cost == 0 && e.1.label.starts_with("Answer(") => Some(0),
                        _ => break,
                    }
                } else if l == "@stall-oldest" {
                    evs.iter().position(|e| e.1.label.starts_with("Stall("))
                } else {
                    evs.iter().position(|e| &e.1.label == l)
                };
                match pick {
                    Some(i) => {
                        let ev = evs[i].0.clone();
                        w.trace.push(format!("[prefix] {}", evs[i].1.label));
                        w.history.push(evs[i].1.label.clone());
                        w.free_choice = true;
                        w.apply_ev(&ev);
                    }
                    None => {
                        // the scenario does not apply to this code (never a verdict, never an error): explore nothing
                        w.trace.push(format!("[prefix] directive {:?} not applicable; scenario skipped", l));
                        w.prefix_failed = true;
                        break 'prefix;
                    }
                }
                guard += 1;
                if !(l.starts_with("@default") || l == "@answers") || guard > 40 {
                    break;
                }
            }
        }
        // violations met while replaying the prefix belong to the scenarios that explore that part
        w.violations.clear();
        // a seeded history must itself satisfy the write-ahead invariant, else the scenario is wrong
        w
    }

    fn enabled(&mut self) -> Vec<Choice> {
        let evs = self.compute_events();
        self.events = evs.iter().map(|e| e.0.clone()).collect();
        self.last_labels = evs.iter().map(|e| e.1.label.clone()).collect();
        evs.into_iter().map(|e| e.1).collect()
    }

    fn apply(&mut self, idx: usize) {
        let ev = self.events[idx].clone();
        let dev = std::mem::replace(&mut self.next_dev, Dev::None);
        self.free_choice = idx == 0 && dev == Dev::None;
        if let Some(l) = self.last_labels.get(idx) {
            self.history.push(l.clone());
        }
        self.trace.push(format!("{}", self.label_of(&ev)));
        let (script, park): (Vec<(u16, u8)>, Option<u16>) = match dev {
            Dev::None => (Vec::new(), None),
            Dev::Pick(j, k) => {
                self.trace.push(format!("  [scheduler] at moment {} with several runnable tasks, the task at queue position {} runs first", j, k));
                self.picks_used += 1;
                self.view.add(&("pick", j, k));
                (vec![(j, k)], None)
            }
            Dev::Park(n) => {
                self.trace.push(format!("  [scheduler] the task reaching preemption point {} of this step (lock / send / recv) is suspended there", n));
                self.parks_used += 1;
                self.view.add(&("park", n));
                (Vec::new(), Some(n))
            }
        };
        sched::begin_step(&script, park);
        self.apply_ev(&ev);
        self.last_step = sched::end_step();
    }

    fn set_deviation(&mut self, dev: Dev) {
        self.next_dev = dev;
    }

    fn last_pick_points(&self) -> Vec<u8> {
        if self.cfg.no_picks || self.in_probe {
            Vec::new()
        } else {
            self.last_step.picks.clone()
        }
    }

    fn last_sync_points(&self) -> u16 {
        if self.in_probe || self.parks_used >= self.cfg.max_parks || sched::parked() > 0 {
            0
        } else {
            self.last_step.syncs
        }
    }

    fn deviation_reached(&self) -> bool {
        self.last_step.script_hit
    }

    fn key(&self) -> u128 {
        let mut h = self.view.clone();
        self.sim.with(|s| s.digest(&mut h));
        h.add(&self.hstate);
        h.add(&(self.vtime_ms, self.advances, self.height_events, self.crashes, self.faults, self.inc_no, self.told_height, self.idle_advances, self.stalls, self.holds, self.hold_armed, self.held_evs.len()));
        h.add(&self.cancels);
        h.add(&self.last_step_responses);
        h.add(&self.mon);
        h.add(&(sched::parked(), self.parks_used, self.park_age, self.long_park));
        h.value()
    }

    fn finish(&mut self) {
        let cfg = Arc::clone(&self.cfg);
        // a history cut short while a task is suspended: let it continue before judging
        for _ in 0..4 {
            if sched::parked() == 0 || self.inc.is_none() {
                break;
            }
            self.hold_armed = false;
            self.apply_ev(&Ev::Resume);
            self.run_default_to_end(40);
        }
        // C06: every delivered call answered exactly once
        let unanswered: Vec<String> = (0..self.hstate.len())
            .filter(|i| matches!(self.hstate[*i], HState::Held { .. }))
            .map(|i| cfg.templates[i].spec.name.clone())
            .collect();
        if !unanswered.is_empty() {
            let pend = self.sim.with(|s| s.pending.iter().map(|p| p.label.clone()).collect::<Vec<_>>());
            self.violate(
                "C06",
                "answered",
                "htlc_accepted call never answered although the node answered every RPC and time passed".into(),
                format!("unanswered {:?}; pending rpcs {:?}", unanswered, pend),
            );
        }
        let died: Vec<String> = (0..self.hstate.len())
            .filter(|i| self.hstate[*i] == HState::Panicked)
            .map(|i| cfg.templates[i].spec.name.clone())
            .collect();
        if !died.is_empty() {
            self.violate("C06", "answered", "htlc_accepted handler died without a response".into(), format!("{:?}", died));
        }
        // C02 end of run: HTLCs held when / delivered after completion were settled with the preimage
        let hashes: Vec<String> = self.mon.keys().cloned().collect();
        for h in &hashes {
            let owed = self.mon[h].owed_preimage.clone();
            let pre = cfg.preimages.iter().find(|p| &p.0 == h).map(|p| p.1.clone()).unwrap_or_default();
            for t in owed {
                if !matches!(cfg.templates[t].class, Class::Trampoline { .. }) {
                    continue;
                }
                match &self.hstate[t] {
                    HState::Answered { resp } if *resp == format!("resolve:{}", pre) => {}
                    HState::Undelivered | HState::Cancelled => {}
                    other => {
                        let d = format!("{} ended as {:?}", cfg.templates[t].spec.name, other);
                        self.violate("C02", "settled-if-complete", "outgoing payment completed but a held HTLC was not settled with its preimage".into(), d.clone());
                        self.violate("C05", "settle-from-record", "invoice paid, but a later/held HTLC was not settled from the known preimage".into(), d);
                    }
                }
            }
        }
        // C14 differential: the other payment's plugin-visible trace equals its trace without the frozen one
        if let Some(f) = &cfg.freeze {
            let btag = format!("@{}", &f.other_hash_hex[..4]);
            let projected: Vec<String> = self
                .history
                .iter()
                .filter(|l| l.contains(&btag) || l.starts_with("Deliver(b") || l.starts_with("Advance(") || l.starts_with("Block(") || l.starts_with("Height("))
                .cloned()
                .collect();
            let held_b: Vec<String> = (0..self.hstate.len())
                .filter(|i| matches!(self.hstate[*i], HState::Held { .. }) && self.hash_of_template(*i) == f.other_hash_hex)
                .map(|i| cfg.templates[i].spec.name.clone())
                .collect();
            if !held_b.is_empty() {
                self.violate(
                    "C14",
                    "progress",
                    "a payment did not finish while a payment for a different hash was frozen".into(),
                    format!("unanswered {:?}; frozen after {} events of the other payment", held_b, f.after),
                );
            } else if self.picks_used + self.parks_used > 0 {
                // a different run-queue order may reorder this payment's own tasks: its trace is then not
                // comparable line by line with the first-in-first-out baseline (progress is still required)
            } else {
                match crate::explore::replay_labels::<W>(&f.solo, &projected, false) {
                    Ok(solo) => {
                        if solo.b_trace != self.b_trace {
                            let i = solo.b_trace.iter().zip(self.b_trace.iter()).position(|(a, b)| a != b).unwrap_or(solo.b_trace.len().min(self.b_trace.len()));
                            self.violate(
                                "C14",
                                "same-trace",
                                "requests / responses of a payment differ from its run without the other (frozen) payment".into(),
                                format!(
                                    "first difference at {}: with {:?} / alone {:?}",
                                    i,
                                    self.b_trace.get(i).map(|s| short_resp(s)),
                                    solo.b_trace.get(i).map(|s| short_resp(s))
                                ),
                            );
                        }
                    }
                    Err(e) => self.violate(
                        "C14",
                        "same-trace",
                        "the events of a payment cannot be replayed without the other (frozen) payment: its behaviour depends on it".into(),
                        e.chars().take(300).collect(),
                    ),
                }
            }
        }
        // C13 differential: after the pass-through HTLCs the same hash behaves as from the initial state
        if let (Some(base), 0) = (&cfg.baseline_reqs, self.picks_used + self.parks_used) {
            // getinfo polls depend on elapsed time only; compare the payment-related requests
            let mine: Vec<String> = self.req_labels.iter().filter(|l| !l.starts_with("getinfo")).cloned().collect();
            let base: Vec<String> = base.iter().filter(|l| !l.starts_with("getinfo")).cloned().collect();
            if mine != base {
                self.violate(
                    "C13",
                    "retains-no-state",
                    "after a pass-through HTLC a payment for the same hash behaves differently than from the initial state".into(),
                    format!("requests {:?} baseline {:?}", mine, base),
                );
            }
        }
        // C10: failure notifications go to the key the invoice signature verifies against
        let sent = self.inc.as_ref().map(|i| i.notify.sent.lock().unwrap().clone()).unwrap_or_default();
        for (dest, hash) in sent {
            let want = cfg.invoices.iter().find(|i| i.hash_hex == hash).map(|i| i.payee.clone());
            if want.as_deref() != Some(dest.as_str()) {
                self.violate("C10", "payee", "failure notification names a payee other than the invoice signer".into(), format!("dest {} want {:?}", dest, want));
            }
        }
        // C09 probe
        if cfg.probe && self.has("C09") {
            self.probe();
        }
    }

    fn take_violations(&mut self) -> Vec<Violation> {
        std::mem::take(&mut self.violations)
    }

    fn trace_hash(&self) -> u64 {
        let mut h = H128::new();
        h.add(&self.trace);
        h.low()
    }

    fn log(&self) -> Vec<String> {
        self.trace.clone()
    }

    fn machinery_error(&self) -> Option<String> {
        self.err.clone()
    }

    fn nontrivial(&self) -> bool {
        self.crashes + self.faults > 0
    }
}

impl W {
    /// Hand one request to the real `handle_htlc`, run the plugin to quiescence without any environment event.
    /// Ok(Some(resp)) = answered at once; Ok(None) = still waiting on something; Err = panic message.
    pub fn poll_htlc_once(&mut self, req: crate::messages::HtlcAcceptedRequest) -> Result<Option<HtlcAcceptedResponse>, String> {
        let inc = self.inc.as_mut().unwrap();
        let mgr = Arc::clone(&inc.mgr);
        let h = {
            let _g = inc.rt.enter();
            tokio::spawn(async move { mgr.handle_htlc(&req).await })
        };
        inc.rt.block_on(sched::quiesce());
        if !h.is_finished() {
            h.abort();
            sched::take_panics();
            return Ok(None);
        }
        match inc.rt.block_on(h) {
            Ok(r) => {
                sched::take_panics();
                Ok(Some(r))
            }
            Err(_) => {
                let p = sched::take_panics();
                Err(p.last().cloned().unwrap_or_else(|| "panic".into()).replace('\n', " | "))
            }
        }
    }

    /// Labels of every event applied so far (prefix, chosen and default events).
    pub fn history_labels(&self) -> Vec<String> {
        self.history.clone()
    }

    /// Plugin-visible observations: "req <label> <params>" / "resp <htlc> <response>" (chain polls excluded).
    pub fn observations(&self) -> Vec<String> {
        self.b_trace.clone()
    }

    pub fn request_labels(&self) -> Vec<String> {
        self.req_labels.clone()
    }

    fn label_of(&self, ev: &Ev) -> String {
        format!("{:?}", ev)
    }

    /// C09: a later fully funded set must be settled (paid now, or from the record).
    fn probe(&mut self) {
        let cfg = Arc::clone(&self.cfg);
        self.in_probe = true;
        // one probe target per fixed-amount invoice that was used
        let inv0 = match cfg.invoices.first() {
            Some(i) => i.clone(),
            None => return,
        };
        let hash = inv0.hash_hex.clone();
        let pre = cfg.preimages.iter().find(|p| p.0 == hash).map(|p| p.1.clone()).unwrap_or_default();
        let amount = inv0.amount_msat.unwrap_or(1_000_000);
        let need = cfg.required(amount) as u64;
        let mut outcomes = Vec::new();
        // two phases: the same incarnation that lived through the fault, and a freshly restarted one; in each
        // phase one of two attempts must be settled (a first attempt may legitimately fail once, e.g. because
        // the remaining time of an interrupted attempt is zero)
        let mut ok_phase = [false, false];
        let mut restarted = false;
        for round in 0..4 {
            if round >= 2 && !ok_phase[0] && false {
                break;
            }
            if ok_phase[round / 2] {
                continue;
            }
            if round / 2 == 1 && !restarted {
                restarted = true;
                // clean restart in between
                self.trace.push("[probe] clean restart".into());
                self.crashes = 0;
                self.do_crash(&[], false, 0);
            }
            // fresh HTLC template appended at run time
            let idx = self.hstate.len();
            let mut c2 = (*self.cfg).clone();
            let mut spec = c2.templates.iter().find(|t| matches!(&t.class, Class::Trampoline{invoice, ..} if *invoice == 0)).map(|t| t.spec.clone());
            let spec = match spec.take() {
                Some(mut s) => {
                    s.name = format!("probe{}", round);
                    s.id = 1000 + round as u64;
                    s.amount_msat = need;
                    s.forward_msat = Some(need);
                    s.total_msat = Some(need);
                    s.cltv_expiry = self.sim.with(|x| x.height) + cfg.policy_delta as u32 + 10;
                    s.cltv_expiry_relative = None;
                    s
                }
                None => return,
            };
            c2.templates.push(Template {
                spec,
                class: Class::Trampoline { invoice: 0, amount_msat: amount },
                after_answered: Vec::new(),
            });
            self.cfg = Arc::new(c2);
            self.hstate.push(HState::Undelivered);
            self.advances = 0;
            self.trace.push(format!("[probe] deliver probe{}", round));
            self.apply_ev(&Ev::Deliver(idx));
            self.run_default_to_end(200);
            let r = self.hstate[idx].clone();
            outcomes.push(format!("{:?}", r));
            if let HState::Answered { resp } = &r {
                if *resp == format!("resolve:{}", pre) {
                    ok_phase[round / 2] = true;
                }
            }
        }
        let ok = ok_phase[0] && ok_phase[1];
        if !ok {
            let d = self.durable_kind(&hash);
            self.in_probe = false;
            let kind = d.split(':').next().unwrap_or("").split('(').next().unwrap_or("").to_string();
            self.violate(
                "C09",
                "retry-succeeds",
                format!(
                    "later fully funded sets keep failing {}; durable record left as {}",
                    if !ok_phase[0] && !ok_phase[1] { "before and after a restart" } else if !ok_phase[0] { "until the plugin is restarted" } else { "after a restart" },
                    kind
                ),
                format!("probe outcomes {:?}", outcomes.iter().map(|o| short_resp(o)).collect::<Vec<_>>()),
            );
        }
        self.in_probe = false;
    }
}

impl Drop for W {
    fn drop(&mut self) {
        self.inc.take();
        verif_hook::unregister(&self.rpc_file);
    }
}
