//! Scenario families for engine W (a few lines of data each).
use std::{collections::BTreeSet, sync::Arc};

use crate::{
    common::{self, Hint, InvoiceSpec},
    engine_w::{Class, Seed, Template, WCfg},
    sim::{Part, PartStatus},
};

fn props(cfg: &mut WCfg, ps: &[&'static str]) {
    cfg.props = ps.iter().cloned().collect::<BTreeSet<_>>();
}

pub const ALL_W: &[&str] = &["C01", "C02", "C03", "C04", "C05", "C06", "C07", "C08", "C09", "C10", "C11", "C12", "C13", "C16"];


/// Stored histories a restart can find (S-hist). The datastore content is produced by the
/// code's own writer (`ClnDatastore`) against an immediate-answer SimNode, so it does not
/// depend on the persistence format. `age_s`: age of the stored attempt when the world starts.
pub fn seed_history(cfg: &WCfg, kind: &str, age_s: u64) -> Seed {
    use crate::store::Datastore;
    let inv = &cfg.invoices[0];
    let h = inv.hash_hex.clone();
    let pre = cfg.preimages.iter().find(|p| p.0 == h).unwrap().1.clone();
    crate::clock::enable(crate::clock::BASE_SECS * 1_000_000_000);
    let mut sim = crate::sim::Sim::new(common::local_pubkey().to_string());
    sim.immediate = true;
    let node = crate::sim::SimNode::new(sim);
    let file = format!("seed-{:?}-{}", std::thread::current().id(), kind);
    crate::rpc::verif_hook::register(&file, Arc::new(node.clone()));
    let store = crate::store::ClnDatastore::new(Arc::new(crate::rpc::Rpc::new(file.clone())));
    let info = crate::engine_w::make_info(cfg, 0);
    let run = |f: std::pin::Pin<Box<dyn std::future::Future<Output = ()> + '_>>| futures::executor::block_on(f);
    let part = |st: PartStatus| Part {
        hash: h.clone(),
        groupid: 1,
        partid: 1,
        status: st,
        cmd: None,
    };
    let mut s = Seed {
        wall_offset_ms: age_s * 1000,
        ..Default::default()
    };
    let mut attempt = None;
    if kind != "none" {
        if kind == "pending-noattempt" {
            node.with(|x| x.write_budget = Some(1));
        }
        run(Box::pin(async {
            attempt = store.add_payment_attempt(&info).await.ok();
        }));
        node.with(|x| x.write_budget = None);
    }
    match kind {
        "none" | "pending-nopart" | "pending-noattempt" => {}
        "free" => {
            run(Box::pin(async {
                store.mark_failed(&info, attempt.as_ref().unwrap()).await.expect("seed mark_failed");
            }));
            s.parts.push(part(PartStatus::Failed(204)));
        }
        "pending-pendingpart" => s.parts.push(part(PartStatus::Pending)),
        "pending-failedpart" => s.parts.push(part(PartStatus::Failed(204))),
        "pending-completepart" => s.parts.push(part(PartStatus::Complete)),
        "succeeded" => {
            run(Box::pin(async {
                store
                    .mark_succeeded(&info, attempt.as_ref().unwrap(), hex::decode(&pre).unwrap())
                    .await
                    .expect("seed mark_succeeded");
            }));
            s.parts.push(part(PartStatus::Complete));
        }
        _ => panic!("unknown history kind"),
    }
    s.datastore = node.with(|x| x.datastore.iter().map(|(k, v)| (k.clone(), String::from_utf8_lossy(&v.0).to_string(), v.1)).collect());
    crate::rpc::verif_hook::unregister(&file);
    s
}

/// Base: invoice A (fixed 1 000 000 msat), a1 600 000 + a2 405 000 = required 1 005 000.
pub fn base(name: &str) -> WCfg {
    let mut c = WCfg::base(name);
    c.add_invoice(&InvoiceSpec::fixed(1, 1_000_000));
    c
}

/// S-life: the payment lifecycle under pay outcomes, part failures, crashes, write faults.
pub fn s_life(name: &str, two_parts: bool, extra: bool, retry: bool) -> WCfg {
    let mut c = base(name);
    let a1;
    if two_parts {
        a1 = c.add_htlc("a1", 0, 600_000, 1_005_000);
        let a2 = c.add_htlc("a2", 0, 405_000, 1_005_000);
        if extra {
            c.add_htlc("a3", 0, 405_000, 1_005_000);
        }
        if retry {
            let r1 = c.add_htlc("a1'", 0, 600_000, 1_005_000);
            let r2 = c.add_htlc("a2'", 0, 405_000, 1_005_000);
            c.templates[r1].after_answered = vec![a1, a2];
            c.templates[r2].after_answered = vec![a1, a2];
        }
    } else {
        a1 = c.add_htlc("a", 0, 1_005_000, 1_005_000);
        if extra {
            c.add_htlc("a3", 0, 405_000, 1_005_000);
        }
        if retry {
            let r1 = c.add_htlc("a'", 0, 1_005_000, 1_005_000);
            c.templates[r1].after_answered = vec![a1];
        }
    }
    c.max_parts = 2;
    c.fail_codes = vec![204];
    c.max_crashes = 1;
    c.crash_lose_responses = true;
    c.write_faults = true;
    c.max_faults = 1;
    c.max_advances = 3;
    c
}

/// S-park: two HTLCs that each fund the same invoice on their own, nothing else going wrong — except that one
/// task may stay suspended at a preemption point while the others, the node and the clock go through up to a
/// dozen further events (a whole payment).
pub fn s_park(two_parts: bool) -> WCfg {
    let mut c = base(if two_parts { "S-park/2htlc+dup" } else { "S-park/dup" });
    if two_parts {
        c.add_htlc("a1", 0, 600_000, 1_005_000);
        c.add_htlc("a2", 0, 405_000, 1_005_000);
    } else {
        c.add_htlc("a", 0, 1_005_000, 1_005_000);
    }
    c.add_htlc("b", 0, 1_005_000, 1_005_000);
    c.max_parts = 1;
    c.fail_codes = vec![];
    c.max_crashes = 0;
    c.write_faults = false;
    c.max_faults = 0;
    c.max_advances = 1;
    c.max_stalls = 0;
    c.max_parks = 1;
    c.park_span = 12;
    c
}

pub fn with_props(mut c: WCfg, ps: &[&'static str]) -> Arc<WCfg> {
    props(&mut c, ps);
    if let Some(n) = std::env::var("VERIF_PARKS").ok().and_then(|v| v.parse().ok()) {
        // experiment knob (never set by the registered commands)
        c.max_parks = n;
    }
    Arc::new(c)
}

/// S-hist: restart finds a stored history; replayed / new HTLCs arrive.
pub fn s_hist(kind: &str, age_s: u64, two_parts: bool) -> WCfg {
    let mut c = base(&format!("S-hist/{}/age{}s/{}", kind, age_s, if two_parts { "2htlc" } else { "1htlc" }));
    if two_parts {
        c.add_htlc("a1", 0, 600_000, 1_005_000);
        c.add_htlc("a2", 0, 405_000, 1_005_000);
    } else {
        c.add_htlc("a", 0, 1_005_000, 1_005_000);
    }
    c.seed = seed_history(&c, kind, age_s);
    c.max_parts = 1;
    c.max_crashes = 1;
    c.crash_lose_responses = true;
    c.write_faults = true;
    // a block may be mined while the node is down: replayed HTLCs then come with a lower relative expiry
    c.heights = vec![c.start_height + 1];
    c.max_height_events = 1;
    c
}

/// S-hash: HTLC payment hash vs attached invoice hash.
pub fn s_hash(htlc_tag: u8, inv_tag: u8, two_parts: bool) -> WCfg {
    let mut c = WCfg::base(&format!("S-hash/htlc{}-inv{}/{}", htlc_tag, inv_tag, if two_parts { "2htlc" } else { "1htlc" }));
    let ia = c.add_invoice(&InvoiceSpec::fixed(1, 1_000_000));
    let ib = c.add_invoice(&InvoiceSpec::fixed(2, 1_000_000));
    let inv = if inv_tag == 1 { ia } else { ib };
    let hh = common::hash_of(&common::preimage(htlc_tag));
    let mk = |c: &mut WCfg, name: &str, amt: u64| {
        let t = c.add_htlc(name, inv, amt, 1_005_000);
        c.templates[t].spec.payment_hash = AsRef::<[u8]>::as_ref(&hh).to_vec();
        if htlc_tag != inv_tag {
            c.templates[t].class = Class::HashMismatch { invoice: inv };
        }
    };
    if two_parts {
        mk(&mut c, "x1", 600_000);
        mk(&mut c, "x2", 405_000);
    } else {
        mk(&mut c, "x", 1_005_000);
    }
    c.max_crashes = 1;
    c.crash_lose_responses = true;
    c
}

// ---------------------------------------------------------------- more families

fn add_htlc_full(c: &mut WCfg, name: &str, inv: usize, amount: u64, total: Option<u64>, tlv_amount: Option<Vec<u8>>) -> usize {
    let t = c.add_htlc(name, inv, amount, total.unwrap_or(amount));
    c.templates[t].spec.total_msat = total;
    if let Some(a) = tlv_amount {
        let bolt11 = c.invoices[inv].bolt11.clone();
        c.templates[t].spec.metadata = Some(common::metadata(Some(bolt11.as_bytes()), Some(&a)));
    }
    t
}

fn set_amount(c: &mut WCfg, t: usize, amount: u64) {
    if let Class::Trampoline { invoice, .. } = c.templates[t].class.clone() {
        c.templates[t].class = Class::Trampoline { invoice, amount_msat: amount };
    }
}

/// S-amt: amounts, declared totals, invoice amounts and policies near the limits (C03).
pub fn s_amt() -> Vec<WCfg> {
    let mut out = Vec::new();
    let policies: [(u32, u32); 4] = [(0, 5000), (1000, 0), (0, 1), (u32::MAX, u32::MAX)];
    for (pi, (base, ppm)) in policies.iter().enumerate() {
        // fixed-amount invoice 1 000 000
        let mk = |name: &str| {
            let mut c = WCfg::base(&format!("S-amt/p{}/{}", pi, name));
            c.fee_base = *base;
            c.fee_ppm = *ppm;
            c.max_crashes = 1;
            c.max_parts = 1;
            c
        };
        let amount = 1_000_000u64;
        let need = {
            let c = mk("x");
            c.required(amount)
        };
        if need <= u64::MAX as u128 {
            let need = need as u64;
            let splits: Vec<(&str, Vec<u64>)> = vec![
                ("exact1", vec![need]),
                ("short1", vec![need - 1]),
                ("short1+1", vec![need - 1, 1]),
                ("split2", vec![600_000, need.saturating_sub(600_000).max(1)]),
                ("dust3", vec![1, 1, need - 2]),
                ("over+extra", vec![need + 1, 1]),
                ("4parts", vec![need / 4, need / 4, need / 4, need - 3 * (need / 4)]),
                ("huge", vec![2_000_000_000_000_000_000, 1]),
            ];
            for (sn, parts) in splits {
                for (tn, tot) in [("exact", Some(need)), ("none", None), ("max", Some(u64::MAX))] {
                    if pi > 0 && tn != "exact" {
                        continue;
                    }
                    let mut c = mk(&format!("fixed/{}/total-{}", sn, tn));
                    let inv = c.add_invoice(&InvoiceSpec::fixed(1, amount));
                    for (i, a) in parts.iter().enumerate() {
                        // with total None the declared total is forward_msat = the part itself
                        let t = add_htlc_full(&mut c, &format!("h{}", i + 1), inv, *a, tot, None);
                        let _ = t;
                    }
                    out.push(c);
                }
            }
        }
        // the stored state is read slowly while several MPP timeouts pass, then the second part arrives
        if pi == 0 {
            let mut c = mk("fixed/slow-store");
            let inv = c.add_invoice(&InvoiceSpec::fixed(1, amount));
            add_htlc_full(&mut c, "q1", inv, 500_000, Some(1_005_000), None);
            add_htlc_full(&mut c, "q2", inv, 505_000, Some(1_005_000), None);
            c.mpp_timeout_ms = 250;
            c.advance_menu_ms = vec![250, 1_100, 2_500];
            c.max_advances = 3;
            c.read_faults = true;
            out.push(c);
        }
        // the onion's forward_msat is sender-controlled and need not equal what the HTLC really carries
        for (vn, amt, fwd) in [("fwd-exceeds-amount", 1_000u64, 502_500u64), ("fwd-below-amount", 502_500, 1_000)] {
            if pi > 0 {
                continue;
            }
            let mut c = mk(&format!("fixed/{}", vn));
            let inv = c.add_invoice(&InvoiceSpec::fixed(1, amount));
            for n in ["w1", "w2"] {
                let t = add_htlc_full(&mut c, n, inv, amt, Some(1_005_000), None);
                c.templates[t].spec.forward_msat = Some(fwd);
            }
            out.push(c);
        }
        // fixed-amount invoice with a conflicting sender-declared amount: not a trampoline payment at all
        for (vn, v) in [("tlv-lower", 100_000u64), ("tlv-higher", 5_000_000)] {
            let mut c = mk(&format!("fixed/{}", vn));
            let inv = c.add_invoice(&InvoiceSpec::fixed(1, amount));
            let need_v = c.required(v).min(2_000_000_000_000_000_000) as u64;
            let t = add_htlc_full(&mut c, "k1", inv, need_v.max(1), Some(need_v.max(1)), Some(common::tu64(v)));
            c.templates[t].class = Class::NotTrampoline;
            out.push(c);
        }
        // amountless invoice + declared amount
        for (an, a) in [("1e6", 1_000_000u64), ("zero", 0), ("2^63", 1 << 63), ("max-5", u64::MAX - 5), ("1e6+1", 1_000_001)] {
            let mut c = mk(&format!("amountless/{}", an));
            let inv = c.add_invoice(&InvoiceSpec::amountless(3));
            let need = c.required(a);
            let tlv = common::tu64(a);
            let funded: Vec<u64> = if need <= 2_000_000_000_000_000_000u128 {
                let n = need as u64;
                if n >= 2 {
                    vec![n - 1, 1]
                } else {
                    vec![n.max(1)]
                }
            } else {
                vec![2_000_000_000_000_000_000, 2_000_000_000_000_000_000]
            };
            let tot = if need <= u64::MAX as u128 { Some(need as u64) } else { Some(u64::MAX) };
            for (i, amt) in funded.iter().enumerate() {
                let t = add_htlc_full(&mut c, &format!("z{}", i + 1), inv, *amt, tot, Some(tlv.clone()));
                set_amount(&mut c, t, a);
            }
            out.push(c);
        }
        // a single HTLC at the very top of the 64-bit range: the sum of one part cannot overflow, the requirement
        // (amount + policy fee) does; nothing may be paid (beyond A3 for real channels, but a legal request)
        for (an, a, htlc) in [("max-10/htlc-max", u64::MAX - 10, u64::MAX), ("max/htlc-max", u64::MAX, u64::MAX), ("max-10/htlc-max-1", u64::MAX - 10, u64::MAX - 1)] {
            let mut c = mk(&format!("amountless/{}", an));
            let inv = c.add_invoice(&InvoiceSpec::amountless(3));
            let t = add_htlc_full(&mut c, "z1", inv, htlc, Some(u64::MAX), Some(common::tu64(a)));
            set_amount(&mut c, t, a);
            out.push(c);
        }
    }
    out
}

/// S-cltv: expiries, heights and deltas (C04).
pub fn s_cltv() -> Vec<WCfg> {
    let mut out = Vec::new();
    for (h0, safety, pdelta) in [(800_000u32, 34u16, 1008u16), (0, 34, 1008), (800_000, 0, 1008), (800_000, 1007, 1008), (800_000, 34, 40), (800_000, 34, 65535)] {
        let mk = |name: &str| {
            let mut c = WCfg::base(&format!("S-cltv/h{}-s{}-p{}/{}", h0, safety, pdelta, name));
            c.start_height = h0;
            c.safety_delta = safety;
            c.policy_delta = pdelta;
            c.heights = vec![h0 + 1, h0 + 10, h0 + 2000];
            c.max_height_events = 2;
            c.max_parts = 1;
            c
        };
        let p = pdelta as u32;
        // two parts with different expiries; the later-arriving one may be the lower
        for (name, e1, e2) in [
            ("hi-lo", h0 + p + 92, h0 + p),
            ("lo-hi", h0 + p, h0 + p + 92),
            ("tight", h0 + p, h0 + p + 1),
            ("max", u32::MAX, h0 + p),
        ] {
            let mut c = mk(name);
            let inv = c.add_invoice(&InvoiceSpec::fixed(1, 1_000_000));
            let a1 = c.add_htlc("a1", inv, 600_000, 1_005_000);
            let a2 = c.add_htlc("a2", inv, 405_000, 1_005_000);
            c.templates[a1].spec.cltv_expiry = e1;
            c.templates[a2].spec.cltv_expiry = e2;
            out.push(c);
        }
        // the plugin has been told a height by a block notification; a later periodic poll reports a stale,
        // lower height (search starts after that poll was answered)
        {
            let mut c = mk("stale-poll");
            let inv = c.add_invoice(&InvoiceSpec::fixed(1, 1_000_000));
            let a1 = c.add_htlc("a1", inv, 600_000, 1_005_000);
            let a2 = c.add_htlc("a2", inv, 405_000, 1_005_000);
            c.templates[a1].spec.cltv_expiry = h0.saturating_add(p + 12);
            c.templates[a2].spec.cltv_expiry = h0.saturating_add(p + 12);
            c.max_height_events = 4;
            c.max_advances = 4;
            c.prefix = vec![format!("Block({})", h0 + 10), format!("Height({})", h0 + 1), "Advance(60000ms)".to_string(), "@answers".to_string()];
            out.push(c);
        }
        // the set is funded by a far-expiry HTLC; a lower-expiry HTLC joins before the attempt is initiated
        {
            let mut c = mk("late-lower");
            let inv = c.add_invoice(&InvoiceSpec::fixed(1, 1_000_000));
            let a = c.add_htlc("a", inv, 1_005_000, 1_005_000);
            let b = c.add_htlc("b", inv, 1, 1_005_000);
            c.templates[a].spec.cltv_expiry = h0.saturating_add(p + 500);
            c.templates[b].spec.cltv_expiry = h0.saturating_add(p + 2);
            out.push(c);
        }
        // generous incoming expiries: the policy delta is the binding cap
        for (name, e1, e2) in [("far1", h0.saturating_add(p + 1000), 0u32), ("far2", h0.saturating_add(p + 5000), h0.saturating_add(p + 300))] {
            let mut c = mk(name);
            let inv = c.add_invoice(&InvoiceSpec::fixed(1, 1_000_000));
            if e2 == 0 {
                let a = c.add_htlc("a", inv, 1_005_000, 1_005_000);
                c.templates[a].spec.cltv_expiry = e1;
            } else {
                let a1 = c.add_htlc("a1", inv, 600_000, 1_005_000);
                let a2 = c.add_htlc("a2", inv, 405_000, 1_005_000);
                c.templates[a1].spec.cltv_expiry = e1;
                c.templates[a2].spec.cltv_expiry = e2;
            }
            out.push(c);
        }
        // an HTLC whose relative expiry is below the policy delta, at either position
        for first in [true, false] {
            let mut c = mk(if first { "lowexp-first" } else { "lowexp-second" });
            let inv = c.add_invoice(&InvoiceSpec::fixed(1, 1_000_000));
            let a1 = c.add_htlc("a1", inv, 600_000, 1_005_000);
            let lo = c.add_htlc("lo", inv, 405_000, 1_005_000);
            c.templates[lo].spec.cltv_expiry = h0 + p - 1;
            if first {
                c.templates.swap(a1, lo);
            }
            out.push(c);
        }
        // absurd relative expiries reported by the node
        for rel in [0i64, -5] {
            let mut c = mk(&format!("rel{}", rel));
            let inv = c.add_invoice(&InvoiceSpec::fixed(1, 1_000_000));
            let a = c.add_htlc("a", inv, 1_005_000, 1_005_000);
            c.templates[a].spec.cltv_expiry = (h0 as i64 + rel).max(0) as u32;
            c.templates[a].spec.cltv_expiry_relative = Some(rel);
            out.push(c);
        }
        // single HTLC whose expiry is close: saturation at zero
        for extra in [20u32, 34, 35] {
            let mut c = mk(&format!("near{}", extra));
            let inv = c.add_invoice(&InvoiceSpec::fixed(1, 1_000_000));
            let a = c.add_htlc("a", inv, 1_005_000, 1_005_000);
            // the node reports a generous relative expiry although the absolute one is near: (a node
            // that is behind the chain tip the plugin already heard about)
            c.templates[a].spec.cltv_expiry = h0 + extra;
            c.templates[a].spec.cltv_expiry_relative = Some(p as i64);
            out.push(c);
        }
    }
    out
}

/// S-set: a rejecting HTLC at every position of a 2-3 part set (C07).
pub fn s_set(select_dev: bool) -> Vec<WCfg> {
    let mut out = Vec::new();
    for rej in ["cf", "lo", "ut", "ca"] {
        for parts in [2usize, 3] {
            let mut c = WCfg::base(&format!("S-set/{}/{}parts", rej, parts));
            c.max_parts = 1;
            c.max_holds = 1;
            c.select_dev = select_dev;
            c.max_crashes = 0;
            let (inv, tlv): (usize, Option<Vec<u8>>) = if rej == "ca" {
                (c.add_invoice(&InvoiceSpec::amountless(3)), Some(common::tu64(1_000_000)))
            } else {
                (c.add_invoice(&InvoiceSpec::fixed(1, 1_000_000)), None)
            };
            let amounts: Vec<u64> = if parts == 2 { vec![600_000, 405_000] } else { vec![300_000, 300_000, 405_000] };
            for (i, a) in amounts.iter().enumerate() {
                let t = add_htlc_full(&mut c, &format!("a{}", i + 1), inv, *a, Some(1_005_000), tlv.clone());
                if rej == "ca" {
                    set_amount(&mut c, t, 1_000_000);
                }
            }
            match rej {
                "cf" => {
                    let inv2 = c.add_invoice(&InvoiceSpec::fixed(1, 1_000_000).with_description("another description"));
                    add_htlc_full(&mut c, "cf", inv2, 405_000, Some(1_005_000), None);
                }
                "lo" => {
                    let t = add_htlc_full(&mut c, "lo", inv, 405_000, Some(1_005_000), None);
                    c.templates[t].spec.cltv_expiry = c.start_height + c.policy_delta as u32 - 1;
                }
                "ut" => {
                    add_htlc_full(&mut c, "ut", inv, 405_000, Some(1_004_999), None);
                }
                "ca" => {
                    let t = add_htlc_full(&mut c, "ca", inv, 405_000, Some(1_005_000), Some(common::tu64(999_999)));
                    set_amount(&mut c, t, 999_999);
                }
                _ => unreachable!(),
            }
            out.push(c);
        }
    }
    out
}

/// S-mpp: partial sets that never reach the total, over virtual time (C11).
pub fn s_mpp() -> Vec<WCfg> {
    let mut out = Vec::new();
    for t_ms in [1_000u64, 60_000, 3_600_000] {
        for parts in [1usize, 2, 3] {
            let mut c = WCfg::base(&format!("S-mpp/T{}ms/{}parts", t_ms, parts));
            c.mpp_timeout_ms = t_ms;
            c.advance_menu_ms = vec![t_ms, t_ms - 1, 2, t_ms / 2];
            c.max_advances = 4;
            c.max_crashes = 1;
            c.downtimes_ms = vec![0, t_ms / 2, 10 * t_ms];
            let inv = c.add_invoice(&InvoiceSpec::fixed(1, 1_000_000));
            for i in 0..parts {
                c.add_htlc(&format!("p{}", i + 1), inv, 300_000, 1_005_000);
            }
            out.push(c);
        }
    }
    // a second, unrelated payment is busy (funded, extra parts arriving while it pays) while a partial set waits
    {
        let mut c = WCfg::base("S-mpp/T60000ms/other-hash-busy");
        c.advance_menu_ms = vec![60_000, 59_999, 2];
        c.max_advances = 3;
        let ia = c.add_invoice(&InvoiceSpec::fixed(1, 1_000_000));
        let ib = c.add_invoice(&InvoiceSpec::fixed(2, 1_000_000));
        c.add_htlc("m1", ib, 1_005_000, 1_005_000);
        c.add_htlc("x1", ib, 1, 1_005_000);
        c.add_htlc("x2", ib, 1, 1_005_000);
        c.add_htlc("p1", ia, 300_000, 1_005_000);
        c.invoices.swap(0, 1);
        for t in c.templates.iter_mut() {
            if let Class::Trampoline { invoice, .. } = &mut t.class {
                *invoice = 1 - *invoice;
            }
        }
        c.max_parts = 1;
        out.push(c);
    }
    // restart finds a stored history
    for kind in ["free", "pending-nopart", "pending-failedpart", "pending-noattempt"] {
        for age_s in [0u64, 30, 59, 60, 600] {
            let mut c = base(&format!("S-mpp/hist-{}/age{}s", kind, age_s));
            c.add_htlc("p1", 0, 300_000, 1_005_000);
            c.add_htlc("p2", 0, 300_000, 1_005_000);
            c.seed = seed_history(&c, kind, age_s);
            c.advance_menu_ms = vec![60_000, 59_999, 2, 30_000];
            c.max_advances = 4;
            c.max_crashes = 1;
            c.downtimes_ms = vec![0, 30_000];
            out.push(c);
        }
        // the wall clock was stepped back while the plugin was down: the stored attempt lies in the future
        for back_s in [30u64, 3600] {
            let mut c = base(&format!("S-mpp/hist-{}/clock-back-{}s", kind, back_s));
            c.add_htlc("p1", 0, 300_000, 1_005_000);
            c.add_htlc("p2", 0, 300_000, 1_005_000);
            c.seed = seed_history(&c, kind, 0);
            c.seed.wall_back_ms = back_s * 1000;
            c.advance_menu_ms = vec![60_000, 59_999, 2, 30_000];
            c.max_advances = 4;
            c.max_crashes = 1;
            c.downtimes_ms = vec![0, 30_000];
            out.push(c);
        }
    }
    out
}

/// S-first: the first HTLC of a fresh payment declares too little / expires too early (C12, third sentence).
pub fn s_first() -> Vec<WCfg> {
    let mut out = Vec::new();
    let policies: [(u32, u32, u16); 6] = [(0, 5000, 1008), (1000, 0, 1008), (0, 1, 40), (u32::MAX, u32::MAX, 65535), (1, 1_000_000, 144), (7, 13, 35)];
    for (pi, (base, ppm, delta)) in policies.iter().enumerate() {
        for kind in ["low-total", "low-expiry", "both", "no-total-low-forward", "expiry-zero", "expiry-negative", "expiry-far-negative", "expiry-i64-min"] {
            let mut c = WCfg::base(&format!("S-first/p{}/{}", pi, kind));
            c.fee_base = *base;
            c.fee_ppm = *ppm;
            c.policy_delta = *delta;
            c.safety_delta = 34.min(*delta - 1);
            let inv = c.add_invoice(&InvoiceSpec::fixed(1, 1_000_000));
            let need = c.required(1_000_000).min(u64::MAX as u128) as u64;
            // relative expiries at and below zero (an HTLC replayed after its expiry height has passed)
            let odd_rel: Option<i64> = match kind {
                "expiry-zero" => Some(0),
                "expiry-negative" => Some(-1),
                "expiry-far-negative" => Some(-100_000),
                "expiry-i64-min" => Some(i64::MIN),
                _ => None,
            };
            let total = if kind == "low-expiry" || odd_rel.is_some() { need } else { need - 1 };
            // without a declared total the HTLC's own forward amount is the declared total
            let declared = if kind == "no-total-low-forward" { None } else { Some(total) };
            let t = add_htlc_full(&mut c, "f", inv, 400_000, declared, None);
            if let Some(rel) = odd_rel {
                c.templates[t].spec.cltv_expiry = (c.start_height as i64).saturating_add(rel).max(0) as u32;
                c.templates[t].spec.cltv_expiry_relative = Some(rel);
            } else if kind != "low-total" && kind != "no-total-low-forward" {
                c.templates[t].spec.cltv_expiry = c.start_height + *delta as u32 - 1;
            } else {
                c.templates[t].spec.cltv_expiry = c.start_height + *delta as u32;
            }
            // a second, well-formed part arrives later
            add_htlc_full(&mut c, "g", inv, need.saturating_sub(400_000).max(1), Some(need), None);
            let last = c.templates.len() - 1;
            c.templates[last].spec.cltv_expiry = c.start_height + *delta as u32;
            c.max_crashes = 0;
            out.push(c);
        }
    }
    out
}

/// S-set/cancel: three parts fund the invoice; the caller of one held handler may go away (its future is dropped)
/// at any moment. The remaining parts must still all receive the set's resolution (C07).
pub fn s_set_cancel() -> Vec<WCfg> {
    let mut out = Vec::new();
    for fails in [false, true] {
        let mut c = WCfg::base(&format!("S-set/cancel/3parts{}", if fails { "/payfails" } else { "" }));
        let inv = c.add_invoice(&InvoiceSpec::fixed(1, 1_000_000));
        for (i, a) in [300_000u64, 300_000, 405_000].iter().enumerate() {
            add_htlc_full(&mut c, &format!("a{}", i + 1), inv, *a, Some(1_005_000), None);
        }
        c.max_parts = 1;
        c.max_crashes = 0;
        c.max_cancels = 1;
        c.max_parks = 0;
        c.max_stalls = 0;
        c.default_part_fails = fails;
        out.push(c);
    }
    out
}

/// S-many: up to 4 HTLCs per hash delivered before / while / after paying (C06).
pub fn s_many() -> Vec<WCfg> {
    let mut out = Vec::new();
    {
        let mut c = base("S-many/4htlc");
        c.add_htlc("m1", 0, 600_000, 1_005_000);
        c.add_htlc("m2", 0, 405_000, 1_005_000);
        c.add_htlc("m3", 0, 1, 1_005_000);
        c.add_htlc("m4", 0, 1, 1_005_000);
        c.max_parts = 1;
        c.write_faults = true;
        out.push(c);
    }
    {
        let mut c = base("S-many/over+3");
        c.add_htlc("m1", 0, 1_005_000, 1_005_000);
        c.add_htlc("m2", 0, 1, 1_005_000);
        c.add_htlc("m3", 0, 1, 1_005_000);
        c.add_htlc("m4", 0, 1, 1_005_000);
        c.max_parts = 1;
        c.write_faults = true;
        out.push(c);
    }
    {
        // the stored state is read slowly (stalled or failing RPC) while time passes
        let mut c = base("S-many/slow-store");
        c.add_htlc("s1", 0, 500_000, 1_005_000);
        c.add_htlc("s2", 0, 505_000, 1_005_000);
        c.advance_menu_ms = vec![60_000, 60_002, 2];
        c.max_advances = 3;
        c.max_parts = 1;
        c.read_faults = true;
        out.push(c);
    }
    {
        let mut c = base("S-many/reject+3");
        let lo = c.add_htlc("lo", 0, 400_000, 1_005_000);
        c.templates[lo].spec.cltv_expiry = c.start_height + 1007;
        c.add_htlc("m2", 0, 605_000, 1_005_000);
        c.add_htlc("m3", 0, 1, 1_005_000);
        c.add_htlc("ut", 0, 1, 1_004_999);
        // violates the expiry policy and the declared-total policy at once (two rejection requests from one HTLC)
        let lu = c.add_htlc("lu", 0, 1, 1_004_000);
        c.templates[lu].spec.cltv_expiry = c.start_height + 1000;
        c.max_parts = 1;
        c.write_faults = true;
        out.push(c);
    }
    out
}

// ---------------------------------------------------------------- C10 classification product

fn pad_be(v: u64, len: usize) -> Option<Vec<u8>> {
    let min = common::tu64(v);
    if len > 8 {
        // malformed on purpose: 9 bytes
        let mut x = vec![0u8; len - 8];
        x.extend_from_slice(&v.to_be_bytes());
        return Some(x);
    }
    if min.len() > len {
        return None;
    }
    let mut x = vec![0u8; len - min.len()];
    x.extend_from_slice(&min);
    Some(x)
}

/// Full product of invoice / amount-field / configuration shapes; each case is one world whose
/// single HTLC is funded for the amount the reference classifier derives from the property text.
pub fn s_classify(thorough: bool) -> Vec<WCfg> {
    let mut out = Vec::new();
    let lens: Vec<usize> = if thorough { (0..=9).collect() } else { vec![0, 1, 3, 8, 9] };
    for inv_amount in [None, Some(1_000_000u64)] {
        for sig in ["recovered", "explicit-ok", "explicit-bad"] {
            for hint in [Hint::None, Hint::SelfLast, Hint::SelfNotLast, Hint::Other] {
                for hash_equal in [true, false] {
                    for allow in [true, false] {
                        // amount field variants
                        let mut fields: Vec<(String, Option<Vec<u8>>)> = vec![("absent".into(), None)];
                        for l in &lens {
                            for (vn, v) in [("agree", 1_000_000u64), ("plus1", 1_000_001), ("minus1", 999_999), ("zero", 0)] {
                                if let Some(b) = pad_be(v, *l) {
                                    fields.push((format!("len{}-{}", l, vn), Some(b)));
                                }
                            }
                        }
                        let extra: Vec<(String, Option<Vec<u8>>)> = fields
                            .iter()
                            .filter(|(n, f)| f.is_some() && (n.starts_with("len3-") || n.starts_with("len8-")) && hint == Hint::None && sig == "recovered")
                            .map(|(n, f)| (format!("{}+noncanon", n), f.clone()))
                            .collect();
                        fields.extend(extra);
                        for (fname, field) in &fields {
                            for damage in ["none", "no-invoice-record", "invalid-utf8", "truncated", "bad-checksum"] {
                                if damage != "none" && (fname != "absent" || hint != Hint::None || !allow || !thorough && sig != "recovered") {
                                    continue;
                                }
                                if !thorough && (hint == Hint::Other || (sig == "explicit-ok" && fname != "absent")) {
                                    continue;
                                }
                                for pay_fails in [false, true] {
                                    if pay_fails && (fname != "absent" || damage != "none" || !hash_equal) {
                                        continue;
                                    }
                                    out.push(classify_case(inv_amount, sig, &hint, hash_equal, allow, fname, field.clone(), damage, pay_fails, false));
                                    // the same HTLC arriving while a well-formed first part for the same invoice is held:
                                    // classification may not depend on what the plugin already holds for that invoice
                                    let first_is_trampoline = sig != "explicit-bad" && !(hint == Hint::SelfLast && !allow);
                                    let conflicting_amountless = inv_amount.is_none() && damage == "none" && (fname.contains("plus1") || fname.contains("minus1") || fname.contains("zero"));
                                    if first_is_trampoline && !pay_fails && !conflicting_amountless {
                                        out.push(classify_case(inv_amount, sig, &hint, hash_equal, allow, fname, field.clone(), damage, pay_fails, true));
                                    }
                                }
                            }
                        }
                    }
                }
            }
        }
    }
    out
}

#[allow(clippy::too_many_arguments)]
fn classify_case(
    inv_amount: Option<u64>,
    sig: &str,
    hint: &Hint,
    hash_equal: bool,
    allow: bool,
    fname: &str,
    field: Option<Vec<u8>>,
    damage: &str,
    pay_fails: bool,
    with_first: bool,
) -> WCfg {
    let mut c = WCfg::base(&format!(
        "S-classify/amt={:?}/sig={}/hint={:?}/hash{}/allow={}/field={}/damage={}{}{}",
        inv_amount,
        sig,
        hint,
        if hash_equal { "=" } else { "!=" },
        allow,
        fname,
        damage,
        if pay_fails { "/payfails" } else { "" },
        if with_first { "/after-first-part" } else { "" }
    ));
    c.allow_self_hints = allow;
    c.max_crashes = 0;
    c.max_parts = 1;
    c.default_part_fails = pay_fails;
    let mut spec = match inv_amount {
        Some(a) => InvoiceSpec::fixed(1, a),
        None => InvoiceSpec::amountless(1),
    }
    .with_hint(hint.clone());
    spec.explicit_payee = match sig {
        "recovered" => None,
        "explicit-ok" => Some(true),
        _ => Some(false),
    };
    let inv = c.add_invoice(&spec);
    if sig == "explicit-bad" {
        // nobody should ever notify / pay; payee irrelevant
    }
    let bolt11 = c.invoices[inv].bolt11.clone();
    // reference classification, straight from the property text
    let field_value: Option<Option<u64>> = field.as_ref().map(|b| {
        if b.len() > 8 {
            None
        } else {
            let mut v = 0u64;
            for x in b {
                v = (v << 8) | *x as u64;
            }
            Some(v)
        }
    });
    let amount: Option<u64> = match (inv_amount, field_value) {
        (Some(a), None) => Some(a),
        (Some(a), Some(None)) => Some(a),
        (Some(a), Some(Some(f))) => {
            if a == f {
                Some(a)
            } else {
                None
            }
        }
        (None, Some(Some(f))) => Some(f),
        (None, _) => None,
    };
    let invoice_bytes: Option<Vec<u8>> = match damage {
        "none" => Some(bolt11.as_bytes().to_vec()),
        "no-invoice-record" => None,
        "invalid-utf8" => {
            let mut b = bolt11.as_bytes().to_vec();
            b[10] = 0xff;
            b[11] = 0xfe;
            Some(b)
        }
        "truncated" => Some(bolt11.as_bytes()[..bolt11.len() / 2].to_vec()),
        "bad-checksum" => {
            let mut b = bolt11.as_bytes().to_vec();
            let n = b.len() - 1;
            b[n] = if b[n] == b'q' { b'p' } else { b'q' };
            Some(b)
        }
        _ => unreachable!(),
    };
    let class = if damage != "none" || sig == "explicit-bad" {
        Class::NotTrampoline
    } else if !hash_equal {
        Class::HashMismatch { invoice: inv }
    } else if amount.is_none() {
        Class::NotTrampoline
    } else if *hint == Hint::SelfLast && !allow {
        Class::SelfHintRejected
    } else {
        Class::Trampoline {
            invoice: inv,
            amount_msat: amount.unwrap(),
        }
    };
    let pay_amount = amount.unwrap_or(1_000_000);
    let need = c.required(pay_amount).min(2_000_000_000_000_000_000) as u64;
    if with_first {
        // a well-formed first part (1 msat) for the same invoice, held when "h" arrives
        let first_amount = inv_amount.unwrap_or(1_000_000);
        let need_first = c.required(first_amount).min(2_000_000_000_000_000_000) as u64;
        let tlv = if inv_amount.is_none() { Some(common::tu64(first_amount)) } else { None };
        let p = add_htlc_full(&mut c, "p", inv, 1, Some(need_first.max(1)), tlv);
        set_amount(&mut c, p, first_amount);
    }
    let t = c.add_htlc("h", inv, need.max(1), need.max(1));
    let meta_amount: Option<Vec<u8>> = field.clone();
    let extra_when_no_invoice = if damage == "no-invoice-record" { Some(common::tu64(1_000_000)) } else { meta_amount };
    c.templates[t].spec.metadata = Some(common::metadata(invoice_bytes.as_deref(), extra_when_no_invoice.as_deref()));
    if fname.ends_with("+noncanon") {
        // the amount record hidden behind a record of a higher type (decoders must not rely on ordering)
        use crate::tlv::{SerializedTlvStream, TlvEntry, ToBytes};
        let mut entries = Vec::new();
        if let Some(i) = &invoice_bytes {
            entries.push(TlvEntry { typ: 33001, value: i.clone() });
        }
        entries.push(TlvEntry { typ: 33005, value: vec![1, 2, 3] });
        if let Some(a) = &extra_when_no_invoice {
            entries.push(TlvEntry { typ: 33003, value: a.clone() });
        }
        c.templates[t].spec.metadata = Some(SerializedTlvStream::to_bytes(SerializedTlvStream::from(entries)));
    }
    if !hash_equal {
        c.templates[t].spec.payment_hash = AsRef::<[u8]>::as_ref(&common::hash_of(&common::preimage(9))).to_vec();
        c.preimages.push((common::hash_hex(&common::preimage(9)), hex::encode(common::preimage(9))));
    }
    c.templates[t].class = class;
    c
}

// ---------------------------------------------------------------- C13 pass-through requests

/// Non-trampoline requests over a grid of payload shapes; each followed by a normal funded
/// trampoline HTLC for the same hash whose behaviour must equal the baseline run.
pub fn s_passthrough(thorough: bool) -> Vec<WCfg> {
    let mut out = Vec::new();
    let inv_spec = InvoiceSpec::fixed(1, 1_000_000);
    let bolt11 = common::build_invoice(&inv_spec);
    let prefixed = |inner: &[u8]| {
        let mut v = Vec::new();
        common::put_bigsize(&mut v, inner.len() as u64);
        v.extend_from_slice(inner);
        v
    };
    let with_inv = common::metadata(Some(bolt11.as_bytes()), None);
    let with_amt = common::metadata(None, Some(&common::tu64(5)));
    let other_rec = {
        use crate::tlv::{SerializedTlvStream, TlvEntry, ToBytes};
        SerializedTlvStream::to_bytes(SerializedTlvStream::from(vec![TlvEntry { typ: 5, value: vec![1, 2, 3] }]))
    };
    let garbage_inv = common::metadata(Some(b"lnbc1notaninvoice"), None);
    // (name, record-16 value, usable as trampoline when final hop with forward_msat)
    let metas: Vec<(&str, Option<Vec<u8>>, bool)> = vec![
        ("absent", None, false),
        ("empty", Some(vec![]), false),
        ("random", Some(hex::decode("deadbeef00112233445566778899aabbccddeeff").unwrap()), false),
        ("prefixed-invoice", Some(prefixed(&with_inv)), false),
        ("prefixed-amount", Some(prefixed(&with_amt)), false),
        ("prefixed-other", Some(prefixed(&other_rec)), false),
        ("unprefixed-garbage-invoice", Some(garbage_inv), false),
        ("unprefixed-amount-only", Some(with_amt.clone()), false),
        ("unprefixed-valid-invoice", Some(with_inv.clone()), true),
    ];
    let value_lens: Vec<usize> = if thorough { vec![0, 1, 253, 65536] } else { vec![0, 1, 253] };
    let other_types: [u64; 5] = [2, 4, 8, 18, 65537];
    // baseline: the funded trampoline HTLC alone
    let baseline = {
        let mut c = base("S-pass/baseline");
        c.add_htlc("a", 0, 1_005_000, 1_005_000);
        c.max_crashes = 0;
        let cfg = with_props(c, &[]);
        let w: crate::engine_w::W = crate::explore::replay_labels(&cfg, &[], true).expect("baseline run");
        w.request_labels()
    };
    for (mname, meta, usable) in &metas {
        for forward in [true, false] {
            for fwd_msat in [true, false] {
                if *usable && !forward && fwd_msat {
                    continue; // that is a real trampoline request
                }
                // subsets of the other record types
                let nsub = 1u32 << other_types.len();
                for mask in 0..nsub {
                    let subset: Vec<u64> = (0..other_types.len()).filter(|i| mask & (1 << i) != 0).map(|i| other_types[i]).collect();
                    if !thorough && !(mask == 0 || mask == nsub - 1 || mask == 0b11000 || mask == 0b00011 || mask == 0b01000) {
                        continue;
                    }
                    for vl in &value_lens {
                        if subset.is_empty() && *vl != 0 {
                            continue;
                        }
                        if *vl > 253 && subset.len() > 1 {
                            continue;
                        }
                        let mut c = base(&format!(
                            "S-pass/{}/{}/{}/types{:?}/len{}",
                            mname,
                            if forward { "forward" } else { "final" },
                            if fwd_msat { "fwdmsat" } else { "nofwdmsat" },
                            subset,
                            vl
                        ));
                        c.max_crashes = 0;
                        let pt = c.add_htlc("pt", 0, 1_005_000, 1_005_000);
                        {
                            let s = &mut c.templates[pt].spec;
                            s.forward_scid = forward;
                            s.forward_msat = if fwd_msat { Some(1_005_000) } else { None };
                            s.metadata = meta.clone();
                            s.extra_records = subset.iter().map(|t| (*t, vec![0x5a; *vl])).collect();
                        }
                        c.templates[pt].class = Class::NotTrampoline;
                        let a = c.add_htlc("a", 0, 1_005_000, 1_005_000);
                        c.templates[a].after_answered = vec![pt];
                        c.baseline_reqs = Some(baseline.clone());
                        out.push(c);
                    }
                }
            }
        }
    }
    out
}


// ---------------------------------------------------------------- C14 isolation

/// Payment A (hash tag 1) is frozen after `k` of its events; payment B (hash tag 2) runs S-life.
pub fn s_isolation(thorough: bool) -> Vec<WCfg> {
    let mut out = Vec::new();
    for a_kind in ["funded", "partial", "rejected-twice"] {
        let mk = |with_a: bool| {
            let mut c = WCfg::base("x");
            let ia = c.add_invoice(&InvoiceSpec::fixed(1, 1_000_000));
            let ib = c.add_invoice(&InvoiceSpec::fixed(2, 2_000_000));
            if with_a {
                if a_kind == "funded" {
                    c.add_htlc("a", ia, 1_005_000, 1_005_000);
                } else if a_kind == "partial" {
                    c.add_htlc("a", ia, 500_000, 1_005_000);
                } else {
                    // one HTLC that violates the expiry policy and the declared-total policy at once
                    let t = c.add_htlc("a", ia, 500_000, 1_004_000);
                    c.templates[t].spec.cltv_expiry = c.start_height + 1000;
                }
            }
            let b1 = c.add_htlc("b1", ib, 1_200_000, 2_010_000);
            let b2 = c.add_htlc("b2", ib, 810_000, 2_010_000);
            // B's incoming HTLCs expire later than A's (pooled expiries would show in B's pay request)
            c.templates[b1].spec.cltv_expiry += 700;
            c.templates[b2].spec.cltv_expiry += 900;
            c.max_parts = 2;
            c.max_crashes = 0;
            c.write_faults = true;
            c.max_advances = 50;
            c.reorder_delivery = true;
            c
        };
        let solo = {
            let mut s = mk(false);
            s.name = format!("S-iso/{}/solo", a_kind);
            with_props(s, &[])
        };
        let max_k = if a_kind == "funded" { 10 } else if a_kind == "partial" { 3 } else { 2 };
        for k in 1..=max_k {
            let mut c = mk(true);
            c.name = format!("S-iso/{}/freeze-after-{}", a_kind, k);
            let fa = c.invoices[0].hash_hex.clone();
            let fb = c.invoices[1].hash_hex.clone();
            c.freeze = Some(crate::engine_w::Freeze {
                hash_hex: fa,
                after: k,
                solo: solo.clone(),
                other_hash_hex: fb,
            });
            out.push(c);
        }
        let _ = thorough;
    }
    // "traffic": A is never frozen. HTLCs for A keep arriving while B's incomplete set waits for its MPP timeout;
    // B's trace must equal its trace without A (a timer, counter or signal shared between hashes would show).
    for b_kind in ["partial", "two-parts"] {
        let mk = |with_a: bool| {
            let mut c = WCfg::base("x");
            let ia = c.add_invoice(&InvoiceSpec::fixed(1, 1_000_000));
            let ib = c.add_invoice(&InvoiceSpec::fixed(2, 2_000_000));
            if with_a {
                c.add_htlc("a1", ia, 500_000, 1_005_000);
                c.add_htlc("a2", ia, 1, 1_005_000);
            }
            c.add_htlc("b1", ib, 1_200_000, 2_010_000);
            if b_kind == "two-parts" {
                c.add_htlc("b2", ib, 810_000, 2_010_000);
            }
            c.max_parts = 1;
            c.max_crashes = 0;
            c.advance_menu_ms = vec![60_000, 30_000, 29_999];
            c.max_advances = 4;
            c.reorder_delivery = true;
            c
        };
        let solo = {
            let mut s = mk(false);
            s.name = format!("S-iso/traffic/{}/solo", b_kind);
            with_props(s, &[])
        };
        let mut c = mk(true);
        c.name = format!("S-iso/traffic/{}", b_kind);
        c.prefix = vec!["Deliver(b1)".to_string(), "@answers".to_string(), "Advance(30000ms)".to_string()];
        let fa = c.invoices[0].hash_hex.clone();
        let fb = c.invoices[1].hash_hex.clone();
        c.freeze = Some(crate::engine_w::Freeze {
            hash_hex: fa,
            after: u32::MAX,
            solo,
            other_hash_hex: fb,
        });
        out.push(c);
    }
    out
}


/// S-overlap: the search starts where a failed first attempt has answered its HTLC, its bookkeeping write is
/// stalled inside the node, and the sender's retry has just arrived (two lifecycles of one hash overlap).
pub fn s_overlap() -> WCfg {
    let mut c = s_life("S-overlap/1htlc+retry", false, false, true);
    let t = &c.invoices[0].hash_hex[..4].to_string();
    c.prefix = vec![
        "Deliver(a)".to_string(),
        "@default-until-pay".to_string(),
        format!("PaySpawnPart(cmd@{}#1)", t),
        format!("Part(g1.p1@{},Fail204)", t),
        format!("PayEnd(cmd@{}#1,failed)", t),
        "@stall-oldest".to_string(),
        "Deliver(a')".to_string(),
    ];
    c.max_stalls = 3;
    c
}


/// Life-cycle variants: xpay mode, an amountless invoice with a declared amount, two stored pending parts.
pub fn s_life_xpay() -> WCfg {
    let mut c = s_life("S-life/1htlc/xpay", false, false, false);
    c.xpay = true;
    c
}

pub fn s_life_amountless() -> WCfg {
    let mut c = WCfg::base("S-life/amountless/2htlc");
    let inv = c.add_invoice(&InvoiceSpec::amountless(3));
    let tlv = common::tu64(1_000_000);
    for (n, a) in [("z1", 600_000u64), ("z2", 405_000)] {
        let t = add_htlc_full(&mut c, n, inv, a, Some(1_005_000), Some(tlv.clone()));
        set_amount(&mut c, t, 1_000_000);
    }
    c.max_parts = 2;
    c.max_crashes = 1;
    c.crash_lose_responses = true;
    c.write_faults = true;
    c
}

pub fn s_hist_two_pending(age_s: u64) -> WCfg {
    let mut c = s_hist("pending-pendingpart", age_s, false);
    c.name = format!("S-hist/pending-2pendingparts/age{}s/1htlc", age_s);
    let h = c.invoices[0].hash_hex.clone();
    c.seed.parts.push(Part {
        hash: h,
        groupid: 1,
        partid: 2,
        status: PartStatus::Pending,
        cmd: None,
    });
    c.fail_codes = vec![203, 204];
    c
}


/// Two payments for different hashes in flight at the same time (preimages must never cross).
pub fn s_two_hashes() -> WCfg {
    let mut c = WCfg::base("S-two/concurrent");
    let ia = c.add_invoice(&InvoiceSpec::fixed(1, 1_000_000));
    let ib = c.add_invoice(&InvoiceSpec::fixed(2, 1_000_000));
    c.add_htlc("a", ia, 1_005_000, 1_005_000);
    c.add_htlc("b", ib, 1_005_000, 1_005_000);
    c.max_parts = 1;
    c.max_crashes = 1;
    c.crash_lose_responses = true;
    c.write_faults = true;
    c
}


/// S-hash/mixed: a well-formed payment for hash A, and an HTLC of hash B that carries A's invoice and arrives
/// while A's payment is in flight or already recorded as succeeded.
pub fn s_hash_mixed(stored_success: bool) -> WCfg {
    let mut c = WCfg::base(&format!("S-hash/mixed/{}", if stored_success { "stored-success" } else { "in-flight" }));
    let ia = c.add_invoice(&InvoiceSpec::fixed(1, 1_000_000));
    c.add_htlc("x", ia, 1_005_000, 1_005_000);
    let y = c.add_htlc("y", ia, 1_005_000, 1_005_000);
    let hb = common::hash_of(&common::preimage(2));
    c.templates[y].spec.payment_hash = AsRef::<[u8]>::as_ref(&hb).to_vec();
    c.templates[y].class = Class::HashMismatch { invoice: ia };
    c.preimages.push((common::hash_hex(&common::preimage(2)), hex::encode(common::preimage(2))));
    if stored_success {
        c.seed = seed_history(&c, "succeeded", 0);
    }
    c.max_parts = 1;
    c.max_crashes = 1;
    c.crash_lose_responses = true;
    c
}
