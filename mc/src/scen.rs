//! Scenario families for engine W (a few lines of data each).
use std::{collections::BTreeSet, sync::Arc};

use crate::{
    common::{self, Hint, InvoiceSpec},
    engine_w::{Class, Seed, Template, WCfg},
    sim::{Part, PartStatus},
};

fn props(cfg: &mut WCfg, ps: &[&'static str]) {
    cfg.props = ps.iter().cloned().collect::<BTreeSet<_>>();
}

pub const ALL_W: &[&str] = &["C01", "C02", "C03", "C04", "C05", "C06", "C07", "C08", "C09", "C10", "C11", "C12", "C13", "C16"];


/// Stored histories a restart can find (S-hist). The datastore content is produced by the
/// code's own writer (`ClnDatastore`) against an immediate-answer SimNode, so it does not
/// depend on the persistence format. `age_s`: age of the stored attempt when the world starts.
pub fn seed_history(cfg: &WCfg, kind: &str, age_s: u64) -> Seed {
    use crate::store::Datastore;
    let inv = &cfg.invoices[0];
    let h = inv.hash_hex.clone();
    let pre = cfg.preimages.iter().find(|p| p.0 == h).unwrap().1.clone();
    crate::clock::enable(crate::clock::BASE_SECS * 1_000_000_000);
    let mut sim = crate::sim::Sim::new(common::local_pubkey().to_string());
    sim.immediate = true;
    let node = crate::sim::SimNode::new(sim);
    let file = format!("seed-{:?}-{}", std::thread::current().id(), kind);
    crate::rpc::verif_hook::register(&file, Arc::new(node.clone()));
    let store = crate::store::ClnDatastore::new(Arc::new(crate::rpc::Rpc::new(file.clone())));
    let info = crate::engine_w::make_info(cfg, 0);
    let run = |f: std::pin::Pin<Box<dyn std::future::Future<Output = ()> + '_>>| futures::executor::block_on(f);
    let part = |st: PartStatus| Part {
        hash: h.clone(),
        groupid: 1,
        partid: 1,
        status: st,
        cmd: None,
    };
    let mut s = Seed {
        wall_offset_ms: age_s * 1000,
        ..Default::default()
    };
    let mut attempt = None;
    if kind != "none" {
        if kind == "pending-noattempt" {
            node.with(|x| x.write_budget = Some(1));
        }
        run(Box::pin(async {
            attempt = store.add_payment_attempt(&info).await.ok();
        }));
        node.with(|x| x.write_budget = None);
    }
    match kind {
        "none" | "pending-nopart" | "pending-noattempt" => {}
        "free" => {
            run(Box::pin(async {
                store.mark_failed(&info, attempt.as_ref().unwrap()).await.expect("seed mark_failed");
            }));
            s.parts.push(part(PartStatus::Failed(204)));
        }
        "pending-pendingpart" => s.parts.push(part(PartStatus::Pending)),
        "pending-failedpart" => s.parts.push(part(PartStatus::Failed(204))),
        "pending-completepart" => s.parts.push(part(PartStatus::Complete)),
        "succeeded" => {
            run(Box::pin(async {
                store
                    .mark_succeeded(&info, attempt.as_ref().unwrap(), hex::decode(&pre).unwrap())
                    .await
                    .expect("seed mark_succeeded");
            }));
            s.parts.push(part(PartStatus::Complete));
        }
        _ => panic!("unknown history kind"),
    }
    s.datastore = node.with(|x| x.datastore.iter().map(|(k, v)| (k.clone(), String::from_utf8_lossy(&v.0).to_string(), v.1)).collect());
    crate::rpc::verif_hook::unregister(&file);
    s
}

/// Base: invoice A (fixed 1 000 000 msat), a1 600 000 + a2 405 000 = required 1 005 000.
pub fn base(name: &str) -> WCfg {
    let mut c = WCfg::base(name);
    c.add_invoice(&InvoiceSpec::fixed(1, 1_000_000));
    c
}

/// S-life: the payment lifecycle under pay outcomes, part failures, crashes, write faults.
pub fn s_life(name: &str, two_parts: bool, extra: bool, retry: bool) -> WCfg {
    let mut c = base(name);
    let a1;
    if two_parts {
        a1 = c.add_htlc("a1", 0, 600_000, 1_005_000);
        let a2 = c.add_htlc("a2", 0, 405_000, 1_005_000);
        if extra {
            c.add_htlc("a3", 0, 405_000, 1_005_000);
        }
        if retry {
            let r1 = c.add_htlc("a1'", 0, 600_000, 1_005_000);
            let r2 = c.add_htlc("a2'", 0, 405_000, 1_005_000);
            c.templates[r1].after_answered = vec![a1, a2];
            c.templates[r2].after_answered = vec![a1, a2];
        }
    } else {
        a1 = c.add_htlc("a", 0, 1_005_000, 1_005_000);
        if extra {
            c.add_htlc("a3", 0, 405_000, 1_005_000);
        }
        if retry {
            let r1 = c.add_htlc("a'", 0, 1_005_000, 1_005_000);
            c.templates[r1].after_answered = vec![a1];
        }
    }
    c.max_parts = 2;
    c.fail_codes = vec![204];
    c.max_crashes = 1;
    c.crash_lose_responses = true;
    c.write_faults = true;
    c.max_faults = 1;
    c.max_advances = 3;
    c
}

pub fn with_props(mut c: WCfg, ps: &[&'static str]) -> Arc<WCfg> {
    props(&mut c, ps);
    Arc::new(c)
}

/// S-hist: restart finds a stored history; replayed / new HTLCs arrive.
pub fn s_hist(kind: &str, age_s: u64, two_parts: bool) -> WCfg {
    let mut c = base(&format!("S-hist/{}/age{}s/{}", kind, age_s, if two_parts { "2htlc" } else { "1htlc" }));
    if two_parts {
        c.add_htlc("a1", 0, 600_000, 1_005_000);
        c.add_htlc("a2", 0, 405_000, 1_005_000);
    } else {
        c.add_htlc("a", 0, 1_005_000, 1_005_000);
    }
    c.seed = seed_history(&c, kind, age_s);
    c.max_parts = 1;
    c.max_crashes = 1;
    c.crash_lose_responses = true;
    c.write_faults = true;
    c
}

/// S-hash: HTLC payment hash vs attached invoice hash.
pub fn s_hash(htlc_tag: u8, inv_tag: u8, two_parts: bool) -> WCfg {
    let mut c = WCfg::base(&format!("S-hash/htlc{}-inv{}/{}", htlc_tag, inv_tag, if two_parts { "2htlc" } else { "1htlc" }));
    let ia = c.add_invoice(&InvoiceSpec::fixed(1, 1_000_000));
    let ib = c.add_invoice(&InvoiceSpec::fixed(2, 1_000_000));
    let inv = if inv_tag == 1 { ia } else { ib };
    let hh = common::hash_of(&common::preimage(htlc_tag));
    let mk = |c: &mut WCfg, name: &str, amt: u64| {
        let t = c.add_htlc(name, inv, amt, 1_005_000);
        c.templates[t].spec.payment_hash = AsRef::<[u8]>::as_ref(&hh).to_vec();
        if htlc_tag != inv_tag {
            c.templates[t].class = Class::HashMismatch { invoice: inv };
        }
    };
    if two_parts {
        mk(&mut c, "x1", 600_000);
        mk(&mut c, "x2", 405_000);
    } else {
        mk(&mut c, "x", 1_005_000);
    }
    c.max_crashes = 1;
    c.crash_lose_responses = true;
    c
}
