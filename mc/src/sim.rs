//! SimNode: the environment model — what a Core Lightning node holds that the
//! plugin can observe (datastore, sendpay parts, pay commands, chain height).
//! It speaks JSON exactly like lightningd's RPC (the typed `ClnRpc` impl below
//! serialises requests / deserialises responses the way `cln_rpc::call_typed`
//! does), so the same object serves the in-process engines and the unix-socket
//! server of engine E.
//!
//! An RPC issued by the plugin is only *registered*; it is evaluated atomically
//! at the moment the explorer answers it (the linearisation point).
use std::{
    collections::BTreeMap,
    hash::{Hash, Hasher},
    sync::{Arc, Mutex},
};

use async_trait::async_trait;
use cln_rpc::model::{
    requests::{
        DatastoreRequest, ListdatastoreRequest, ListsendpaysRequest, PayRequest,
        WaitsendpayRequest,
    },
    responses::{
        DatastoreResponse, GetinfoResponse, ListdatastoreResponse, ListsendpaysResponse,
        PayResponse, WaitsendpayResponse,
    },
};
use serde_json::{json, Value};
use tokio::sync::oneshot;

use crate::rpc::{ClnRpc, RpcError};

#[derive(Clone, Debug, PartialEq, Eq, Hash)]
pub enum SimErr {
    /// JSON-RPC error object from the node.
    Rpc { code: i32, message: String },
    /// Transport-level failure (connection refused / reset).
    Transport(String),
}

impl SimErr {
    pub fn rpc(code: i32, message: &str) -> Self {
        SimErr::Rpc {
            code,
            message: message.to_string(),
        }
    }
    fn into_rpc_error(self) -> RpcError {
        match self {
            SimErr::Rpc { code, message } => RpcError::Rpc(cln_rpc::RpcError {
                code: Some(code),
                message,
                data: None,
            }),
            SimErr::Transport(m) => RpcError::General(anyhow::anyhow!(m)),
        }
    }
}

pub type SimResult = Result<Value, SimErr>;

#[derive(Clone, Copy, Debug, PartialEq, Eq, Hash, PartialOrd, Ord)]
pub enum Method {
    Datastore,
    Listdatastore,
    Listsendpays,
    Waitsendpay,
    Pay,
    Getinfo,
}

impl Method {
    pub fn name(self) -> &'static str {
        match self {
            Method::Datastore => "datastore",
            Method::Listdatastore => "listdatastore",
            Method::Listsendpays => "listsendpays",
            Method::Waitsendpay => "waitsendpay",
            Method::Pay => "pay",
            Method::Getinfo => "getinfo",
        }
    }
    pub fn from_name(s: &str) -> Option<Method> {
        Some(match s {
            "datastore" => Method::Datastore,
            "listdatastore" => Method::Listdatastore,
            "listsendpays" => Method::Listsendpays,
            "waitsendpay" => Method::Waitsendpay,
            "pay" => Method::Pay,
            "getinfo" => Method::Getinfo,
            _ => return None,
        })
    }
    pub fn is_write(self) -> bool {
        matches!(self, Method::Datastore)
    }
}

#[derive(Clone, Copy, Debug, PartialEq, Eq, Hash)]
pub enum PartStatus {
    Pending,
    Complete,
    Failed(i32),
}

#[derive(Clone, Debug, PartialEq, Eq, Hash)]
pub struct Part {
    pub hash: String,
    pub groupid: u64,
    pub partid: u64,
    pub status: PartStatus,
    pub cmd: Option<usize>,
}

#[derive(Clone, Debug, PartialEq, Eq, Hash)]
pub struct PayCmd {
    pub id: usize,
    pub hash: String,
    pub params: String,
    pub running: bool,
    pub rpc: u64,
    pub groupid: u64,
    pub parts_created: u32,
    /// None while the invoice was acceptable; Some(err) if the node rejects the
    /// request outright (bad parameters).
    pub reject: Option<SimErr>,
}

pub struct PendingRpc {
    pub id: u64,
    pub method: Method,
    pub params: Value,
    pub label: String,
    pub tx: Option<oneshot::Sender<SimResult>>,
    /// deliberately delayed by the explorer (skipped by the default answer order)
    pub stalled: bool,
}

#[derive(Clone, Debug, PartialEq, Eq)]
pub enum PayOutcome {
    Complete { warning: bool },
    Pending,
    Failed { warning: bool },
    RpcError(i32),
    /// the connection broke: no JSON-RPC answer at all (the command has ended, contract A1)
    Transport,
}

impl PayOutcome {
    pub fn label(&self) -> String {
        match self {
            PayOutcome::Complete { warning: false } => "complete".into(),
            PayOutcome::Complete { warning: true } => "complete+warn".into(),
            PayOutcome::Pending => "pending".into(),
            PayOutcome::Failed { warning: false } => "failed".into(),
            PayOutcome::Failed { warning: true } => "failed+warn".into(),
            PayOutcome::RpcError(c) => format!("rpcerror{}", c),
            PayOutcome::Transport => "transport-error".into(),
        }
    }
}

/// Plugin-visible observation recorded by the sim: a request the plugin issued.
#[derive(Clone, Debug)]
pub struct ReqObs {
    pub id: u64,
    pub method: Method,
    pub params: Value,
    pub label: String,
}

pub struct Sim {
    pub immediate: bool,
    pub datastore: BTreeMap<Vec<String>, (Vec<u8>, u64)>,
    pub parts: Vec<Part>,
    pub pays: Vec<PayCmd>,
    pub height: u32,
    pub node_id: String,
    /// hash hex -> preimage hex the (cooperative) recipient would release.
    pub preimages: BTreeMap<String, String>,
    pub pending: Vec<PendingRpc>,
    pub next_rpc: u64,
    pub counters: BTreeMap<String, u32>,
    pub new_requests: Vec<ReqObs>,
    /// number of datastore effects applied (for crash-point accounting)
    pub effects: u64,
    /// seeding aid: number of further datastore writes accepted (None = unlimited)
    pub write_budget: Option<u64>,
}

pub const ZERO_PREIMAGE: &str = "0000000000000000000000000000000000000000000000000000000000000000";

impl Sim {
    pub fn new(node_id: String) -> Self {
        Sim {
            immediate: false,
            datastore: BTreeMap::new(),
            parts: Vec::new(),
            pays: Vec::new(),
            height: 0,
            node_id,
            preimages: BTreeMap::new(),
            pending: Vec::new(),
            next_rpc: 0,
            counters: BTreeMap::new(),
            new_requests: Vec::new(),
            effects: 0,
            write_budget: None,
        }
    }

    /// A copy of the durable / node-side state that answers immediately; used
    /// by oracles to read the durable record with the code's own reader.
    pub fn snapshot_immediate(&self) -> Sim {
        Sim {
            immediate: true,
            datastore: self.datastore.clone(),
            parts: self.parts.clone(),
            pays: self.pays.clone(),
            height: self.height,
            node_id: self.node_id.clone(),
            preimages: self.preimages.clone(),
            pending: Vec::new(),
            next_rpc: 0,
            counters: BTreeMap::new(),
            new_requests: Vec::new(),
            effects: 0,
            write_budget: None,
        }
    }

    pub fn digest<H: Hasher>(&self, h: &mut H) {
        self.datastore.hash(h);
        self.parts.hash(h);
        self.pays.hash(h);
        self.height.hash(h);
        for p in &self.pending {
            p.id.hash(h);
            p.label.hash(h);
            p.params.to_string().hash(h);
            p.tx.is_some().hash(h);
            p.stalled.hash(h);
        }
        self.next_rpc.hash(h);
    }

    /// First four hex digits of the payment hash a request concerns (None for getinfo etc.).
    pub fn hash_tag(method: Method, params: &Value) -> Option<String> {
        match method {
            Method::Pay => {
                let b = params.get("bolt11").and_then(|b| b.as_str())?;
                let inv = b.parse::<lightning_invoice::SignedRawBolt11Invoice>().ok()?;
                let h = inv.payment_hash()?;
                Some(hex::encode(AsRef::<[u8]>::as_ref(&h.0))[..4].to_string())
            }
            Method::Getinfo => None,
            _ => {
                let s = params.to_string();
                // the first 64-hex-digit run in the parameters
                let bytes = s.as_bytes();
                let mut run = 0;
                for (i, c) in bytes.iter().enumerate() {
                    if c.is_ascii_hexdigit() {
                        run += 1;
                        if run == 64 && bytes.get(i + 1).map(|n| !n.is_ascii_hexdigit()).unwrap_or(true) {
                            return Some(s[i + 1 - 64..i + 1 - 60].to_string());
                        }
                    } else {
                        run = 0;
                    }
                }
                None
            }
        }
    }

    fn label_for(&mut self, method: Method, params: &Value) -> String {
        let mut base = match method {
            Method::Listsendpays => format!(
                "listsendpays[{}]",
                params.get("status").and_then(|s| s.as_str()).unwrap_or("*")
            ),
            Method::Datastore => {
                let key = params
                    .get("key")
                    .and_then(|k| k.as_array())
                    .map(|a| {
                        let kind = a.iter().filter_map(|x| x.as_str()).find(|s| *s == "state" || *s == "attempts").unwrap_or("?");
                        kind.to_string()
                    })
                    .unwrap_or_default();
                format!("datastore[{}]", key)
            }
            // concurrent waits for different parts reach a real node in either order: name the part
            Method::Waitsendpay => {
                let (_, g, p) = wsp_args(params);
                format!("waitsendpay[g{}.p{}]", g, p)
            }
            m => m.name().to_string(),
        };
        if let Some(t) = Self::hash_tag(method, params) {
            base.push('@');
            base.push_str(&t);
        }
        let c = self.counters.entry(base.clone()).or_insert(0);
        *c += 1;
        format!("{}#{}", base, c)
    }

    /// Register a request. In immediate mode evaluates it at once.
    pub fn register(&mut self, method: Method, params: Value) -> Result<oneshot::Receiver<SimResult>, SimResult> {
        if self.immediate {
            return Err(self.eval(method, &params));
        }
        let id = self.next_rpc;
        self.next_rpc += 1;
        let label = self.label_for(method, &params);
        let (tx, rx) = oneshot::channel();
        self.new_requests.push(ReqObs {
            id,
            method,
            params: params.clone(),
            label: label.clone(),
        });
        if method == Method::Pay {
            self.start_pay(id, &params);
        }
        self.pending.push(PendingRpc {
            id,
            method,
            params,
            label,
            tx: Some(tx),
            stalled: false,
        });
        Ok(rx)
    }

    pub fn take_new_requests(&mut self) -> Vec<ReqObs> {
        std::mem::take(&mut self.new_requests)
    }

    // ---------------------------------------------------------------- pay

    fn start_pay(&mut self, rpc: u64, params: &Value) {
        let bolt11 = params.get("bolt11").and_then(|b| b.as_str()).unwrap_or("");
        let (hash, reject) = match bolt11.parse::<lightning_invoice::Bolt11Invoice>() {
            Ok(inv) => {
                let hash = hex::encode(AsRef::<[u8]>::as_ref(inv.payment_hash()));
                let has_amt = inv.amount_milli_satoshis().is_some();
                let given = params.get("amount_msat").map(|v| !v.is_null()).unwrap_or(false);
                let _ = given;
                let reject = if inv.check_signature().is_err() {
                    Some(SimErr::rpc(-32602, "Invalid bolt11: bad signature"))
                } else if has_amt && given {
                    Some(SimErr::rpc(-32602, "amount_msat parameter unnecessary"))
                } else if !has_amt && !given {
                    Some(SimErr::rpc(-32602, "amount_msat parameter required"))
                } else {
                    None
                };
                (hash, reject)
            }
            Err(_) => (String::new(), Some(SimErr::rpc(-32602, "Invalid bolt11"))),
        };
        let groupid = 1 + self
            .parts
            .iter()
            .filter(|p| p.hash == hash)
            .map(|p| p.groupid)
            .max()
            .unwrap_or(0);
        let id = self.pays.len();
        self.pays.push(PayCmd {
            id,
            hash,
            params: params.to_string(),
            running: true,
            rpc,
            groupid,
            parts_created: 0,
            reject,
        });
    }

    /// Stable label of a pay command: per-hash numbering.
    pub fn cmd_label(&self, cmd: usize) -> String {
        let c = &self.pays[cmd];
        let n = self.pays.iter().filter(|x| x.hash == c.hash && x.id <= c.id).count();
        format!("cmd@{}#{}", &c.hash[..4.min(c.hash.len())], n)
    }

    pub fn running_pay(&self, hash: &str) -> Option<&PayCmd> {
        self.pays.iter().find(|c| c.running && c.hash == hash)
    }

    pub fn spawn_part(&mut self, cmd: usize) {
        let c = &mut self.pays[cmd];
        assert!(c.running);
        c.parts_created += 1;
        let partid = c.parts_created as u64;
        let part = Part {
            hash: c.hash.clone(),
            groupid: c.groupid,
            partid,
            status: PartStatus::Pending,
            cmd: Some(cmd),
        };
        self.parts.push(part);
    }

    pub fn resolve_part(&mut self, idx: usize, status: PartStatus) {
        assert_eq!(self.parts[idx].status, PartStatus::Pending);
        self.parts[idx].status = status;
    }

    pub fn parts_of(&self, hash: &str) -> impl Iterator<Item = &Part> {
        let hash = hash.to_string();
        self.parts.iter().filter(move |p| p.hash == hash)
    }

    pub fn any_pending(&self, hash: &str) -> bool {
        self.parts_of(hash).any(|p| p.status == PartStatus::Pending)
    }
    pub fn any_complete(&self, hash: &str) -> bool {
        self.parts_of(hash).any(|p| p.status == PartStatus::Complete)
    }
    /// Live(H): some part pending or complete, or a pay command running.
    pub fn live(&self, hash: &str) -> bool {
        self.any_pending(hash) || self.any_complete(hash) || self.running_pay(hash).is_some()
    }

    /// Outcomes contract A1 allows for command `cmd` in the current parts configuration.
    pub fn allowed_outcomes(&self, cmd: usize) -> Vec<PayOutcome> {
        let c = &self.pays[cmd];
        if c.reject.is_some() {
            return vec![PayOutcome::RpcError(-32602)];
        }
        let own: Vec<&Part> = self.parts.iter().filter(|p| p.cmd == Some(cmd)).collect();
        let complete_any = self.any_complete(&c.hash);
        // contract A1 speaks of the parts of the *payment* (hash), whichever command created them
        let _ = own;
        let pending_own = self.any_pending(&c.hash);
        let mut v = Vec::new();
        if complete_any {
            v.push(PayOutcome::Complete { warning: false });
            if pending_own {
                v.push(PayOutcome::Complete { warning: true });
            }
        }
        if pending_own && !complete_any {
            v.push(PayOutcome::Pending);
        }
        if !pending_own && !complete_any {
            v.push(PayOutcome::Failed { warning: false });
        }
        if pending_own || complete_any {
            v.push(PayOutcome::Failed { warning: true });
        }
        // A JSON-RPC error ends the command whatever the parts are doing.
        v.push(PayOutcome::RpcError(210));
        v.push(PayOutcome::Transport);
        v
    }

    /// End command `cmd` with `outcome` and answer its RPC. Returns the answer given.
    pub fn end_pay(&mut self, cmd: usize, outcome: &PayOutcome) -> SimResult {
        let (hash, rpc, reject) = {
            let c = &mut self.pays[cmd];
            c.running = false;
            (c.hash.clone(), c.rpc, c.reject.clone())
        };
        let preimage = self.preimages.get(&hash).cloned().unwrap_or_else(|| ZERO_PREIMAGE.to_string());
        let nparts = self.parts.iter().filter(|p| p.cmd == Some(cmd)).count();
        let mk = |status: &str, pre: &str, warn: bool| {
            let mut v = json!({
                "status": status,
                "amount_msat": 1000,
                "amount_sent_msat": 1000,
                "created_at": 1.0,
                "parts": nparts,
                "payment_hash": hash,
                "payment_preimage": pre,
            });
            if warn {
                v["warning_partial_completion"] = json!("Some parts of the payment are not yet completed, but we have the confirmation from the recipient.");
            }
            v
        };
        let res: SimResult = if let Some(e) = reject {
            Err(e)
        } else {
            match outcome {
                PayOutcome::Complete { warning } => Ok(mk("complete", &preimage, *warning)),
                PayOutcome::Pending => Ok(mk("pending", ZERO_PREIMAGE, false)),
                PayOutcome::Failed { warning } => Ok(mk("failed", ZERO_PREIMAGE, *warning)),
                PayOutcome::RpcError(code) => Err(SimErr::rpc(*code, "Ran out of routes to try")),
                PayOutcome::Transport => Err(SimErr::Transport("connection reset by peer".into())),
            }
        };
        self.respond(rpc, res.clone());
        res
    }

    // ---------------------------------------------------------------- answering

    pub fn pending_index(&self, id: u64) -> Option<usize> {
        self.pending.iter().position(|p| p.id == id)
    }

    /// Can this pending request be answered by a plain `Answer` event now?
    pub fn answerable(&self, p: &PendingRpc) -> bool {
        match p.method {
            Method::Pay => false,
            Method::Waitsendpay => {
                let (h, g, pid) = wsp_args(&p.params);
                match self.parts.iter().find(|x| x.hash == h && x.groupid == g && x.partid == pid) {
                    Some(part) => part.status != PartStatus::Pending,
                    None => true,
                }
            }
            _ => true,
        }
    }

    pub fn respond(&mut self, id: u64, res: SimResult) {
        if let Some(i) = self.pending_index(id) {
            let mut p = self.pending.remove(i);
            if let Some(tx) = p.tx.take() {
                let _ = tx.send(res);
            }
        }
    }

    /// Evaluate request `id` against the current state and answer it.
    pub fn answer_ok(&mut self, id: u64) -> SimResult {
        let i = self.pending_index(id).expect("pending rpc");
        let (m, params) = (self.pending[i].method, self.pending[i].params.clone());
        let res = self.eval(m, &params);
        self.respond(id, res.clone());
        res
    }

    /// Answer with an error. `applied`: perform the effect first (applied-but-error).
    pub fn answer_fault(&mut self, id: u64, applied: bool, err: SimErr) -> SimResult {
        let i = self.pending_index(id).expect("pending rpc");
        let (m, params) = (self.pending[i].method, self.pending[i].params.clone());
        if applied {
            let _ = self.eval(m, &params);
        }
        let res = Err(err);
        self.respond(id, res.clone());
        res
    }

    /// Whole-node crash: every pending request dies. `apply` lists pending
    /// write requests whose effect reaches the disk before the crash.
    pub fn crash(&mut self, apply: &[u64]) {
        for id in apply {
            if let Some(i) = self.pending_index(*id) {
                let (m, params) = (self.pending[i].method, self.pending[i].params.clone());
                let _ = self.eval(m, &params);
            }
        }
        self.pending.clear();
        for c in self.pays.iter_mut() {
            c.running = false;
        }
        self.new_requests.clear();
    }

    // ---------------------------------------------------------------- evaluation

    pub fn eval(&mut self, method: Method, params: &Value) -> SimResult {
        match method {
            Method::Datastore => self.eval_datastore(params),
            Method::Listdatastore => self.eval_listdatastore(params),
            Method::Listsendpays => self.eval_listsendpays(params),
            Method::Waitsendpay => self.eval_waitsendpay(params),
            Method::Getinfo => Ok(self.getinfo()),
            Method::Pay => Err(SimErr::rpc(-32603, "pay is answered by the pay command machinery")),
        }
    }

    pub fn getinfo(&self) -> Value {
        json!({
            "id": self.node_id,
            "alias": "SIMNODE",
            "color": "02aa11",
            "num_peers": 1,
            "num_pending_channels": 0,
            "num_active_channels": 1,
            "num_inactive_channels": 0,
            "address": [],
            "binding": [],
            "version": "v24.05-sim",
            "blockheight": self.height,
            "network": "regtest",
            "fees_collected_msat": 0,
            "lightning-dir": "/tmp/sim/regtest",
        })
    }

    fn entry_json(key: &[String], data: &[u8], generation: u64) -> Value {
        let mut v = json!({
            "key": key,
            "generation": generation,
            "hex": hex::encode(data),
        });
        if let Ok(s) = std::str::from_utf8(data) {
            v["string"] = json!(s);
        }
        v
    }

    fn eval_datastore(&mut self, p: &Value) -> SimResult {
        let key: Vec<String> = match p.get("key") {
            Some(Value::Array(a)) => a.iter().map(|x| x.as_str().unwrap_or("").to_string()).collect(),
            Some(Value::String(s)) => vec![s.clone()],
            _ => return Err(SimErr::rpc(-32602, "missing required parameter: key")),
        };
        let data: Vec<u8> = if let Some(s) = p.get("string").and_then(|s| s.as_str()) {
            s.as_bytes().to_vec()
        } else if let Some(hx) = p.get("hex").and_then(|s| s.as_str()) {
            match hex::decode(hx) {
                Ok(d) => d,
                Err(_) => return Err(SimErr::rpc(-32602, "hex: not valid hex")),
            }
        } else {
            Vec::new()
        };
        let mode = p.get("mode").and_then(|m| m.as_str()).unwrap_or("must-create");
        let generation = p.get("generation").and_then(|g| g.as_u64());
        if generation.is_some() && mode != "must-replace" && mode != "must-append" {
            return Err(SimErr::rpc(-32602, "generation only valid with must-replace or must-append"));
        }
        // A key may not be both a leaf and a parent.
        for k in self.datastore.keys() {
            if k.len() < key.len() && key[..k.len()] == k[..] {
                return Err(SimErr::rpc(1206, "Parent key already exists"));
            }
            if k.len() > key.len() && k[..key.len()] == key[..] {
                return Err(SimErr::rpc(1205, "Child keys already exist"));
            }
        }
        let existing = self.datastore.get(&key).cloned();
        let new = match (mode, existing) {
            ("must-create", Some(_)) => return Err(SimErr::rpc(1202, "Key already exists")),
            ("must-create", None) => (data, 0),
            ("must-replace", None) | ("must-append", None) => return Err(SimErr::rpc(1203, "Key does not exist")),
            ("must-replace", Some((_, g))) => {
                if let Some(want) = generation {
                    if want != g {
                        return Err(SimErr::rpc(1204, "generation is different"));
                    }
                }
                (data, g + 1)
            }
            ("create-or-replace", None) => (data, 0),
            ("create-or-replace", Some((_, g))) => (data, g + 1),
            ("must-append", Some((mut old, g))) => {
                if let Some(want) = generation {
                    if want != g {
                        return Err(SimErr::rpc(1204, "generation is different"));
                    }
                }
                old.extend_from_slice(&data);
                (old, g + 1)
            }
            ("create-or-append", None) => (data, 0),
            ("create-or-append", Some((mut old, g))) => {
                old.extend_from_slice(&data);
                (old, g + 1)
            }
            _ => return Err(SimErr::rpc(-32602, "mode: unknown")),
        };
        if let Some(b) = self.write_budget {
            if b == 0 {
                return Err(SimErr::rpc(-32603, "write budget exhausted"));
            }
            self.write_budget = Some(b - 1);
        }
        self.effects += 1;
        let out = Self::entry_json(&key, &new.0, new.1);
        self.datastore.insert(key, new);
        Ok(out)
    }

    fn eval_listdatastore(&mut self, p: &Value) -> SimResult {
        let key: Vec<String> = match p.get("key") {
            Some(Value::Array(a)) => a.iter().map(|x| x.as_str().unwrap_or("").to_string()).collect(),
            Some(Value::String(s)) => vec![s.clone()],
            _ => Vec::new(),
        };
        let mut out = Vec::new();
        let mut seen_children: Vec<Vec<String>> = Vec::new();
        for (k, (d, g)) in self.datastore.iter() {
            if *k == key {
                out.push(Self::entry_json(k, d, *g));
            } else if k.len() > key.len() && k[..key.len()] == key[..] {
                let child: Vec<String> = k[..key.len() + 1].to_vec();
                if k.len() == key.len() + 1 {
                    out.push(Self::entry_json(k, d, *g));
                } else if !seen_children.contains(&child) {
                    seen_children.push(child.clone());
                    out.push(json!({ "key": child }));
                }
            }
        }
        Ok(json!({ "datastore": out }))
    }

    fn part_json(&self, part: &Part, id: usize) -> Value {
        let mut v = json!({
            "id": id + 1,
            "created_index": id + 1,
            "groupid": part.groupid,
            "partid": part.partid,
            "payment_hash": part.hash,
            "status": match part.status { PartStatus::Pending => "pending", PartStatus::Complete => "complete", PartStatus::Failed(_) => "failed" },
            "amount_sent_msat": 1000,
            "created_at": 1_800_000_000u64,
        });
        if part.status == PartStatus::Complete {
            v["payment_preimage"] = json!(self.preimages.get(&part.hash).cloned().unwrap_or_else(|| ZERO_PREIMAGE.to_string()));
            v["completed_at"] = json!(1_800_000_001u64);
        }
        v
    }

    fn eval_listsendpays(&mut self, p: &Value) -> SimResult {
        let hash = p.get("payment_hash").and_then(|h| h.as_str()).map(|s| s.to_string());
        let status = p.get("status").and_then(|s| s.as_str()).map(|s| s.to_lowercase());
        let mut out = Vec::new();
        for (i, part) in self.parts.iter().enumerate() {
            if let Some(h) = &hash {
                if &part.hash != h {
                    continue;
                }
            }
            let st = match part.status {
                PartStatus::Pending => "pending",
                PartStatus::Complete => "complete",
                PartStatus::Failed(_) => "failed",
            };
            if let Some(s) = &status {
                if s != st {
                    continue;
                }
            }
            out.push(self.part_json(part, i));
        }
        Ok(json!({ "payments": out }))
    }

    fn eval_waitsendpay(&mut self, p: &Value) -> SimResult {
        let (h, g, pid) = wsp_args(p);
        match self.parts.iter().enumerate().find(|(_, x)| x.hash == h && x.groupid == g && x.partid == pid) {
            None => Err(SimErr::rpc(208, "Never attempted payment part for this hash")),
            Some((i, part)) => match part.status {
                PartStatus::Complete => Ok(self.part_json(part, i)),
                PartStatus::Failed(code) => Err(SimErr::rpc(code, "failed: WIRE_TEMPORARY_CHANNEL_FAILURE (reply from remote)")),
                PartStatus::Pending => Err(SimErr::rpc(200, "Timed out while waiting")),
            },
        }
    }
}

pub fn wsp_args(p: &Value) -> (String, u64, u64) {
    (
        p.get("payment_hash").and_then(|h| h.as_str()).unwrap_or("").to_string(),
        p.get("groupid").and_then(|g| g.as_u64()).unwrap_or(1),
        p.get("partid").and_then(|g| g.as_u64()).unwrap_or(0),
    )
}

// ------------------------------------------------------------------ typed facade

#[derive(Clone)]
pub struct SimNode {
    pub inner: Arc<Mutex<Sim>>,
}

impl SimNode {
    pub fn new(sim: Sim) -> Self {
        SimNode {
            inner: Arc::new(Mutex::new(sim)),
        }
    }

    pub fn with<R>(&self, f: impl FnOnce(&mut Sim) -> R) -> R {
        let mut g = self.inner.lock().unwrap();
        f(&mut g)
    }

    pub async fn call(&self, method: Method, params: Value) -> Result<Value, RpcError> {
        let reg = self.inner.lock().unwrap().register(method, params);
        let res = match reg {
            Err(immediate) => immediate,
            Ok(rx) => match rx.await {
                Ok(r) => r,
                Err(_) => Err(SimErr::Transport("connection to node lost".into())),
            },
        };
        res.map_err(|e| e.into_rpc_error())
    }

    async fn typed<Q: serde::Serialize, R: serde::de::DeserializeOwned>(&self, method: Method, req: &Q) -> Result<R, RpcError> {
        let params = serde_json::to_value(req).map_err(|e| RpcError::General(e.into()))?;
        let v = self.call(method, params).await?;
        // same conversion (and same error shape) as cln_rpc::ClnRpc::call_raw
        serde_json::from_value(v).map_err(|e| {
            RpcError::Rpc(cln_rpc::RpcError {
                code: None,
                message: format!("Failed to parse response {:?}", e),
                data: None,
            })
        })
    }
}

#[async_trait]
impl ClnRpc for SimNode {
    async fn datastore(&self, request: &DatastoreRequest) -> Result<DatastoreResponse, RpcError> {
        self.typed(Method::Datastore, request).await
    }
    async fn get_info(&self) -> Result<GetinfoResponse, RpcError> {
        self.typed(Method::Getinfo, &json!({})).await
    }
    async fn listdatastore(&self, request: &ListdatastoreRequest) -> Result<ListdatastoreResponse, RpcError> {
        self.typed(Method::Listdatastore, request).await
    }
    async fn listsendpays(&self, request: &ListsendpaysRequest) -> Result<ListsendpaysResponse, RpcError> {
        self.typed(Method::Listsendpays, request).await
    }
    async fn pay(&self, request: &PayRequest) -> Result<PayResponse, RpcError> {
        self.typed(Method::Pay, request).await
    }
    async fn waitsendpay(&self, request: WaitsendpayRequest) -> Result<WaitsendpayResponse, RpcError> {
        self.typed(Method::Waitsendpay, &request).await
    }
}
