//! Engine B: the real `BlockWatcher` alone over the simulated node. Heights in
//! getinfo replies and block_added notifications are arbitrary (stale, repeated);
//! polls may fail; time moves on either side of the 60 s poll interval. (C20)
use std::sync::Arc;

use tokio::task::JoinHandle;

use crate::{
    block_watcher::{BlockProvider, BlockWatcher},
    common::{self, H128},
    explore::{Choice, Dev, Model, Violation},
    messages::BlockAdded,
    rpc::{verif_hook, Rpc},
    sched,
    sim::{Method, Sim, SimErr, SimNode},
};

#[derive(Clone, Debug)]
pub struct BCfg {
    pub name: String,
    pub heights: Vec<u32>,
    pub advances_ms: Vec<u64>,
    pub max_events: usize,
    pub max_faults: u32,
}

#[derive(Clone, Debug)]
enum Ev {
    Reply(u64, u32),
    FailPoll(u64),
    Block(u32),
    Advance(u64),
    /// the task that was suspended at a preemption point continues (nothing else happens)
    Resume,
}

pub struct B {
    cfg: BCfg,
    rt: tokio::runtime::Runtime,
    sim: SimNode,
    rpc_file: String,
    watcher: Option<Arc<BlockWatcher>>,
    start_task: Option<JoinHandle<(BlockWatcher, bool)>>,
    start_failed: bool,
    _shutdown: tokio::sync::mpsc::Sender<()>,
    block_tasks: Vec<JoinHandle<()>>,
    told_max: u32,
    vtime_ms: u64,
    /// virtual time at which the previous poll completed (reply or failure delivered)
    last_poll_done_ms: Option<u64>,
    polls_seen: u64,
    faults: u32,
    steps: usize,
    view: H128,
    trace: Vec<String>,
    violations: Vec<Violation>,
    events: Vec<Ev>,
    next_dev: Dev,
    last_step: sched::StepInfo,
    parks_used: u32,
}

static COUNTER: std::sync::atomic::AtomicU64 = std::sync::atomic::AtomicU64::new(0);

impl B {
    fn settle(&mut self) {
        self.rt.block_on(sched::quiesce_parkable());
        let panics = sched::take_panics();
        for p in panics {
            self.violations.push(Violation {
                property: "C20",
                clause: "no-panic",
                shape: "block watcher task panicked".into(),
                detail: p.replace('\n', " | "),
            });
        }
        if self.watcher.is_none() {
            let done = self.start_task.as_ref().map(|t| t.is_finished()).unwrap_or(false);
            if done {
                let t = self.start_task.take().unwrap();
                match self.rt.block_on(t) {
                    Ok((w, true)) => self.watcher = Some(Arc::new(w)),
                    Ok((_, false)) => self.start_failed = true,
                    Err(_) => self.start_failed = true,
                }
            }
        }
        self.block_tasks.retain(|t| !t.is_finished());
        let reqs = self.sim.with(|s| s.take_new_requests());
        for r in &reqs {
            self.trace.push(format!("  plugin -> {} at {}ms", r.label, self.vtime_ms));
            self.view.add(&("req", &r.label));
            if r.method == Method::Getinfo {
                self.polls_seen += 1;
                // a periodic poll must start exactly 60 s after the previous one completed (a task that was
                // suspended completes its poll when it continues, not when the reply was handed to it)
                if let (Some(done), 0) = (self.last_poll_done_ms, self.parks_used) {
                    if self.polls_seen > 1 && self.vtime_ms < done + 60_000 {
                        self.violations.push(Violation {
                            property: "C20",
                            clause: "poll-interval",
                            shape: "a poll was issued before one poll interval had passed since the previous poll completed".into(),
                            detail: format!("now {}ms previous completed {}ms", self.vtime_ms, done),
                        });
                    }
                }
            }
        }
        self.check();
    }

    fn check(&mut self) {
        let w = match &self.watcher {
            Some(w) => Arc::clone(w),
            None => return,
        };
        if sched::parked() > 0 {
            // a suspended task may be the one that is about to record what it was told
            return;
        }
        let h = futures::executor::block_on(w.current_height());
        if h != self.told_max {
            self.violations.push(Violation {
                property: "C20",
                clause: "height-is-max-told",
                shape: if h < self.told_max {
                    "height used is below the maximum height the plugin has been told".into()
                } else {
                    "height used is above every height the plugin has been told".into()
                },
                detail: format!("current_height() = {} max told = {}", h, self.told_max),
            });
        }
        // catch-up: if a poll interval has passed since the last poll completed, a poll must be outstanding
        let pending = self.sim.with(|s| s.pending.iter().any(|p| p.method == Method::Getinfo));
        if let (Some(done), 0) = (self.last_poll_done_ms, self.parks_used) {
            if !pending && self.vtime_ms >= done + 60_000 {
                self.violations.push(Violation {
                    property: "C20",
                    clause: "catches-up-within-one-interval",
                    shape: "no poll outstanding although a full poll interval has passed since the previous poll completed".into(),
                    detail: format!("now {}ms previous completed {}ms", self.vtime_ms, done),
                });
            }
        }
    }
}

impl Model for B {
    type Cfg = BCfg;

    fn new(cfg: &BCfg) -> Self {
        sched::take_panics();
        sched::own_select();
        crate::clock::enable(crate::clock::BASE_SECS * 1_000_000_000);
        let rt = sched::new_runtime();
        let sim = SimNode::new(Sim::new(common::local_pubkey().to_string()));
        let rpc_file = format!("watch-{}", COUNTER.fetch_add(1, std::sync::atomic::Ordering::Relaxed));
        verif_hook::register(&rpc_file, Arc::new(sim.clone()));
        let rpc = Arc::new(Rpc::new(rpc_file.clone()));
        let (tx, rx) = tokio::sync::mpsc::channel(1);
        let start_task = {
            let _g = rt.enter();
            tokio::spawn(async move {
                let mut w = BlockWatcher::new(rpc);
                let ok = w.start(rx).await.is_ok();
                (w, ok)
            })
        };
        let mut b = B {
            cfg: cfg.clone(),
            rt,
            sim,
            rpc_file,
            watcher: None,
            start_task: Some(start_task),
            start_failed: false,
            _shutdown: tx,
            block_tasks: Vec::new(),
            told_max: 0,
            vtime_ms: 0,
            last_poll_done_ms: None,
            polls_seen: 0,
            faults: 0,
            steps: 0,
            view: H128::new(),
            trace: vec![format!("scenario {}", cfg.name)],
            violations: Vec::new(),
            events: Vec::new(),
            next_dev: Dev::None,
            last_step: sched::StepInfo::default(),
            parks_used: 0,
        };
        b.settle();
        b
    }

    fn enabled(&mut self) -> Vec<Choice> {
        let mut out: Vec<(Ev, Choice)> = Vec::new();
        if self.start_failed || self.steps >= self.cfg.max_events {
            self.events.clear();
            return Vec::new();
        }
        let pending: Vec<u64> = self.sim.with(|s| s.pending.iter().filter(|p| p.method == Method::Getinfo).map(|p| p.id).collect());
        let mut first = true;
        if sched::parked() > 0 {
            out.push((Ev::Resume, Choice { label: "Resume".into(), cost: 0 }));
        }
        for id in &pending {
            for h in &self.cfg.heights {
                out.push((
                    Ev::Reply(*id, *h),
                    Choice {
                        label: format!("GetinfoReply(#{},{})", id, h),
                        cost: if first { 0 } else { 1 },
                    },
                ));
                first = false;
            }
            if self.faults < self.cfg.max_faults {
                out.push((
                    Ev::FailPoll(*id),
                    Choice {
                        label: format!("GetinfoFails(#{})", id),
                        cost: 1,
                    },
                ));
            }
        }
        for (i, a) in self.cfg.advances_ms.iter().enumerate() {
            out.push((
                Ev::Advance(*a),
                Choice {
                    label: format!("Advance({}ms)", a),
                    cost: if first && i == 0 { 0 } else { 1 },
                },
            ));
        }
        if self.watcher.is_some() {
            for h in &self.cfg.heights {
                out.push((
                    Ev::Block(*h),
                    Choice {
                        label: format!("BlockAdded({})", h),
                        cost: 1,
                    },
                ));
            }
        }
        self.events = out.iter().map(|e| e.0.clone()).collect();
        out.into_iter().map(|e| e.1).collect()
    }

    fn apply(&mut self, idx: usize) {
        let ev = self.events[idx].clone();
        self.trace.push(format!("{:?}", ev));
        self.steps += 1;
        let (script, park): (Vec<(u16, u8)>, Option<u16>) = match std::mem::replace(&mut self.next_dev, Dev::None) {
            Dev::None => (Vec::new(), None),
            Dev::Pick(j, k) => {
                self.trace.push(format!("  [scheduler] at moment {} with several runnable tasks, the task at queue position {} runs first", j, k));
                self.view.add(&("pick", j, k));
                (vec![(j, k)], None)
            }
            Dev::Park(n) => {
                self.trace.push(format!("  [scheduler] the task reaching preemption point {} of this step is suspended there", n));
                self.view.add(&("park", n));
                self.parks_used += 1;
                (Vec::new(), Some(n))
            }
        };
        sched::begin_step(&script, park);
        match ev {
            Ev::Resume => {
                // the suspended task continues (until then the other tasks, the node and the clock went on)
                sched::release_parked();
                self.trace.push("  [scheduler] the suspended task continues".to_string());
            }
            Ev::Reply(id, h) => {
                self.sim.with(|s| {
                    s.height = h;
                    s.answer_ok(id)
                });
                self.told_max = self.told_max.max(h);
                self.last_poll_done_ms = Some(self.vtime_ms);
                self.view.add(&("reply", id, h));
            }
            Ev::FailPoll(id) => {
                self.faults += 1;
                self.sim.with(|s| s.answer_fault(id, false, SimErr::Transport("connection refused".into())));
                self.last_poll_done_ms = Some(self.vtime_ms);
                self.view.add(&("fail", id));
            }
            Ev::Block(h) => {
                self.told_max = self.told_max.max(h);
                self.view.add(&("block", h));
                let w = Arc::clone(self.watcher.as_ref().unwrap());
                let jh = {
                    let _g = self.rt.enter();
                    tokio::spawn(async move { w.new_block(&BlockAdded { height: h }).await })
                };
                self.block_tasks.push(jh);
            }
            Ev::Advance(ms) => {
                self.vtime_ms += ms;
                crate::clock::advance_ms(ms);
                self.view.add(&("adv", ms));
                let d = std::time::Duration::from_millis(ms);
                self.rt.block_on(async move { tokio::time::advance(d).await });
            }
        }
        self.settle();
        self.last_step = sched::end_step();
    }

    fn set_deviation(&mut self, dev: Dev) {
        self.next_dev = dev;
    }

    fn last_pick_points(&self) -> Vec<u8> {
        self.last_step.picks.clone()
    }

    fn last_sync_points(&self) -> u16 {
        if self.parks_used >= 1 || sched::parked() > 0 {
            0
        } else {
            self.last_step.syncs
        }
    }

    fn deviation_reached(&self) -> bool {
        self.last_step.script_hit
    }

    fn key(&self) -> u128 {
        let mut h = self.view.clone();
        self.sim.with(|s| s.digest(&mut h));
        h.add(&(self.vtime_ms, self.told_max, self.faults, self.steps, self.last_poll_done_ms, sched::parked(), self.parks_used));
        h.value()
    }

    fn finish(&mut self) {
        if sched::parked() > 0 {
            sched::release_parked();
            self.settle();
        }
    }

    fn take_violations(&mut self) -> Vec<Violation> {
        std::mem::take(&mut self.violations)
    }

    fn trace_hash(&self) -> u64 {
        let mut h = H128::new();
        h.add(&self.trace);
        h.low()
    }

    fn log(&self) -> Vec<String> {
        self.trace.clone()
    }

    fn nontrivial(&self) -> bool {
        self.faults > 0
    }
}

impl Drop for B {
    fn drop(&mut self) {
        self.start_task.take();
        self.block_tasks.clear();
        self.watcher.take();
        verif_hook::unregister(&self.rpc_file);
    }
}

pub fn configs(thorough: bool) -> Vec<(BCfg, u32)> {
    let mut v = Vec::new();
    v.push((
        BCfg {
            name: "B/watcher/heights{100,90,105,110}".into(),
            heights: vec![100, 90, 105, 110],
            advances_ms: vec![60_000, 59_999, 2],
            max_events: if thorough { 11 } else { 9 },
            max_faults: 2,
        },
        // 5 was affordable before the preemption deviation; with it level 5 exceeds the 60 M state cap
        if thorough { 4 } else { 3 },
    ));
    v.push((
        BCfg {
            name: "B/watcher/heights{0,1,4294967295}".into(),
            heights: vec![1, 0, u32::MAX],
            advances_ms: vec![60_000, 1],
            max_events: 8,
            max_faults: 1,
        },
        if thorough { 4 } else { 3 },
    ));
    v
}
