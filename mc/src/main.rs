//! trampoline-mc: exhaustive bounded exploration of the real breez/trampoline
//! code (compiled in by path) under an environment the checker owns.
//!
//! usage: check <ID> [--tier quick|thorough]      decide one property
//!        check replay <file>                      re-run one recorded history / input, no search
#![allow(dead_code, unused_imports, unused_variables, clippy::all)]

// The subject's crate root defines this alias; `crate::Error` is used by cln_plugin.
pub use anyhow::Error;

include!(concat!(env!("OUT_DIR"), "/subject_mods.rs"));

pub mod clock;
pub mod common;
pub mod engine_b;
pub mod engine_e;
pub mod engine_f;
pub mod engine_i;
pub mod engine_p;
pub mod engine_w;
pub mod explore;
pub mod scen;
pub mod sched;
pub mod sim;
pub mod suite;

use std::{
    collections::BTreeMap,
    sync::Mutex,
    time::{Duration, Instant},
};

use explore::{Found, Limits, Model, Violation};
use serde_json::{json, Value};
use suite::Job;

pub struct FoundAny {
    pub violation: Violation,
    pub cost: u32,
    pub replay: Value,
}

#[derive(Default)]
pub struct JobResult {
    pub name: String,
    pub engine: String,
    pub bound: u32,
    pub states: u64,
    pub transitions: u64,
    pub runs: u64,
    pub distinct_outcomes: u64,
    pub nontrivial_outcomes: u64,
    pub level_completed: i32,
    pub capped: bool,
    pub depth_capped: u64,
    pub rechecks: u64,
    pub evaluations: u64,
    pub nontrivial: u64,
    pub found: Vec<FoundAny>,
    pub samples: Vec<Value>,
    pub error: Option<String>,
    pub rule: Option<String>,
    pub exhaustive: bool,
    pub extra: BTreeMap<String, Value>,
}

pub type OtherResult = JobResult;

/// Where evidence / replays are written (background sweeps redirect it so that they do not overwrite evidence).
fn out_dir() -> String {
    std::env::var("VERIF_OUT").unwrap_or_else(|_| "/verif".to_string())
}
const VERIF: &str = "/verif";

fn from_explore<M: Model>(name: String, engine: &str, bound: u32, out: explore::Outcome) -> JobResult {
    let mut r = JobResult {
        name: name.clone(),
        engine: engine.to_string(),
        bound,
        states: out.stats.states,
        transitions: out.stats.transitions_new,
        runs: out.stats.runs,
        distinct_outcomes: out.stats.distinct_outcomes,
        nontrivial_outcomes: out.stats.nontrivial_outcomes,
        level_completed: out.stats.level_completed,
        capped: out.stats.time_capped,
        depth_capped: out.stats.depth_capped_runs,
        rechecks: out.stats.determinism_rechecks,
        error: out.error,
        exhaustive: !out.stats.time_capped && out.stats.depth_capped_runs == 0,
        ..Default::default()
    };
    r.extra.insert("run_queue_pick_points".into(), json!(out.stats.pick_points));
    r.extra.insert("run_queue_alternatives".into(), json!(out.stats.pick_alternatives));
    r.extra.insert("preemption_points".into(), json!(out.stats.sync_points));
    r.extra.insert("preemption_alternatives".into(), json!(out.stats.park_alternatives));
    for f in out.found {
        r.found.push(FoundAny {
            cost: f.cost,
            replay: json!({"engine": engine, "scenario": name, "labels": f.labels, "log": f.log, "deviations": f.cost}),
            violation: f.violation,
        });
    }
    for (labels, log) in out.samples.into_iter().take(2) {
        r.samples.push(json!({"scenario": name, "history": labels, "observations": log.into_iter().take(60).collect::<Vec<_>>()}));
    }
    r
}

fn run_job(job: &Job, thorough: bool, threads: usize, deadline: Instant, seed: u64) -> JobResult {
    let limits = Limits {
        max_depth: 120,
        deadline,
        threads,
        recheck_every: 40 + (seed % 17),
        max_states: 60_000_000,
    };
    match job {
        Job::W { cfg, bound, .. } => from_explore::<engine_w::W>(cfg.name.clone(), "W", *bound, explore::explore::<engine_w::W>(cfg, *bound, &limits)),
        Job::B { cfg, bound } => from_explore::<engine_b::B>(cfg.name.clone(), "B", *bound, explore::explore::<engine_b::B>(cfg, *bound, &limits)),
        Job::P { cfg, bound } => from_explore::<engine_p::P>(cfg.name.clone(), "P", *bound, explore::explore::<engine_p::P>(cfg, *bound, &limits)),
        Job::I { name, run } => {
            let rep = run(thorough, threads);
            let mut r = JobResult {
                name: name.to_string(),
                engine: "I".into(),
                evaluations: rep.evaluations,
                nontrivial: rep.distinct_nontrivial,
                rule: Some(rep.rule),
                samples: rep.samples,
                exhaustive: rep.exhaustive,
                level_completed: 0,
                ..Default::default()
            };
            for (v, input) in rep.found {
                r.found.push(FoundAny {
                    violation: v,
                    cost: 0,
                    replay: json!({"engine": "I", "scenario": name, "input": input}),
                });
            }
            r
        }
        Job::Other { name, run } => run(thorough, threads, name),
    }
}

fn load_known() -> Vec<Value> {
    let p = format!("{}/known_findings.json", VERIF);
    match std::fs::read_to_string(&p) {
        Ok(s) => serde_json::from_str::<Value>(&s)
            .ok()
            .and_then(|v| v.get("findings").and_then(|f| f.as_array()).cloned())
            .unwrap_or_default(),
        Err(_) => Vec::new(),
    }
}

fn level_of(id: &str) -> &'static str {
    match id {
        "C09" => "fault_enumeration",
        "C10" | "C12" | "C13" | "C18" | "C19" => "exploration",
        _ => "model_checking",
    }
}

fn fnv(s: &str) -> u64 {
    let mut h: u64 = 0xcbf29ce484222325;
    for b in s.bytes() {
        h ^= b as u64;
        h = h.wrapping_mul(0x100000001b3);
    }
    h
}

fn run_check(id: &str, thorough: bool) -> i32 {
    let t0 = Instant::now();
    let seed: u64 = std::env::var("VERIF_SEED").ok().and_then(|s| s.parse().ok()).unwrap_or(0);
    let mut jobs = suite::jobs(id, thorough);
    if let Ok(only) = std::env::var("VERIF_ONLY") {
        jobs.retain(|j| j.name().contains(&only));
    }
    if jobs.is_empty() {
        eprintln!("no check registered for {}", id);
        return 2;
    }
    let mut results = run_jobs(&jobs, thorough, t0, seed);
    if matches!(id, "C03" | "C06" | "C12") && engine_i::overflow_checks_on() {
        // the same jobs in the build without overflow checks (release semantics)
        match run_sub(id, thorough) {
            Ok(mut more) => results.append(&mut more),
            Err(e) => {
                eprintln!("MACHINERY ERROR wrapping-build run: {}", e);
                return 2;
            }
        }
    }

    results.sort_by(|a, b| a.name.cmp(&b.name));

    // machinery errors are never verdicts
    let errors: Vec<String> = results.iter().filter(|r| !r.name.starts_with("E/conformance")).filter_map(|r| r.error.as_ref().map(|e| format!("{}: {}", r.name, e))).collect();
    if !errors.is_empty() {
        for e in &errors {
            eprintln!("MACHINERY ERROR {}", e);
        }
        return 2;
    }
    // The binding check (the real binary did not behave as the in-process run on some history) is a machinery
    // error when the exploration itself is silent: then nothing vouches for what it explored. When the exploration
    // has a violation to show, that violation is replayable on the real code in-process and stands on its own.
    let conformance_error: Option<String> = results.iter().filter(|r| r.name.starts_with("E/conformance")).find_map(|r| r.error.clone());

    // merge findings for this property by signature (cheapest first)
    let mut merged: BTreeMap<String, (&FoundAny, String)> = BTreeMap::new();
    for r in &results {
        for f in &r.found {
            if f.violation.property != id {
                continue;
            }
            let sig = f.violation.signature();
            let better = match merged.get(&sig) {
                None => true,
                Some((g, _)) => f.cost < g.cost,
            };
            if better {
                merged.insert(sig, (f, r.name.clone()));
            }
        }
    }
    let known = load_known();
    let mut violations = 0;
    let mut known_hits: Vec<String> = Vec::new();
    let _ = std::fs::create_dir_all(format!("{}/replays", out_dir()));
    let mut viol_lines = Vec::new();
    for (sig, (f, scen_name)) in &merged {
        let k = known.iter().find(|k| {
            k.get("status").and_then(|s| s.as_str()) == Some("open") && k.get("signature").and_then(|s| s.as_str()) == Some(sig.as_str())
        });
        if let Some(k) = k {
            let what = k.get("what").and_then(|w| w.as_str()).unwrap_or(sig);
            println!("KNOWN-FINDING: property={} {}", id, what);
            known_hits.push(sig.clone());
            continue;
        }
        violations += 1;
        let path = format!("{}/replays/{}-{:016x}.json", out_dir(), id, fnv(sig));
        let mut doc = f.replay.clone();
        doc["property"] = json!(id);
        doc["signature"] = json!(sig);
        doc["clause"] = json!(f.violation.clause);
        doc["what"] = json!(f.violation.shape);
        doc["detail"] = json!(f.violation.detail);
        let _ = std::fs::write(&path, serde_json::to_string_pretty(&doc).unwrap());
        viol_lines.push(format!("VIOLATION property={} replay={}", id, path));
        eprintln!("  {} [{}] {} :: {}", sig, scen_name, f.cost, trunc(&f.violation.detail, 300));
    }
    if let Some(e) = &conformance_error {
        if violations == 0 {
            eprintln!("MACHINERY ERROR E/conformance: {}", e);
            return 2;
        }
        eprintln!("NOTE: the real binary also departs from the in-process run on some history (E/conformance): {}", trunc(e, 400));
    }

    // evidence
    let level = level_of(id);
    let states: u64 = results.iter().map(|r| r.states).sum();
    let transitions: u64 = results.iter().map(|r| r.transitions).sum();
    let runs: u64 = results.iter().map(|r| r.runs).sum();
    let evals: u64 = results.iter().map(|r| r.evaluations).sum::<u64>() + runs;
    let distinct: u64 = results.iter().map(|r| r.distinct_outcomes + r.nontrivial).sum();
    let nontrivial_runs: u64 = results.iter().map(|r| r.nontrivial_outcomes).sum();
    let capped: Vec<String> = results.iter().filter(|r| r.capped || r.depth_capped > 0).map(|r| format!("{} (level completed {})", r.name, r.level_completed)).collect();
    let min_level = results.iter().filter(|r| matches!(r.engine.as_str(), "W" | "P" | "B")).map(|r| r.level_completed).min();
    let min_bound = results.iter().filter(|r| matches!(r.engine.as_str(), "W" | "P" | "B")).map(|r| r.bound).min();
    let mut samples: Vec<Value> = Vec::new();
    let pick = (seed as usize) % results.len().max(1);
    for (i, r) in results.iter().cycle().skip(pick).take(results.len()).enumerate() {
        if samples.len() >= 3 {
            break;
        }
        if let Some(s) = r.samples.first() {
            samples.push(s.clone());
        }
        let _ = i;
    }
    if samples.is_empty() {
        samples.push(json!({"note": "no sample recorded"}));
    }
    let per_job: Vec<Value> = results
        .iter()
        .map(|r| {
            json!({
                "scenario": r.name, "engine": r.engine, "deviation_bound": r.bound, "level_completed": r.level_completed,
                "states": r.states, "transitions": r.transitions, "histories": r.runs, "distinct_outcomes": r.distinct_outcomes,
                "evaluations": r.evaluations, "capped": r.capped, "depth_capped_runs": r.depth_capped, "extra": r.extra,
            })
        })
        .take(60)
        .collect();
    let rules: Vec<String> = results.iter().filter_map(|r| r.rule.clone()).collect();
    let w_rule = "engine W/P: every history with at most `deviation_bound` departures from the default environment answer (reordered RPC answers and deliveries, part failures, every pay ending contract A1 allows, time steps on either side of each deadline, block events, write/read faults, whole-node crashes with every applied/lost flavour), each run to the drained end on the real code compiled from /repo/src; a history is distinct when its complete observation log differs";
    let mut coverage = json!({
        "states": states.max(0),
        "transitions": transitions,
        "traces_validated_against_impl": runs,
        "traces_replayed_against_real_binary": results.iter().filter_map(|r| r.extra.get("validated_against_binary").and_then(|v| v.as_u64())).sum::<u64>(),
        "impl_executions": runs,
        "evaluations": evals,
        "distinct_nontrivial": if level == "fault_enumeration" { nontrivial_runs } else { distinct },
        "distinct_outcomes": distinct,
        "histories_with_crash_or_fault": nontrivial_runs,
        "rule": if rules.is_empty() { w_rule.to_string() } else { format!("{} || {}", rules.join(" || "), if runs > 0 { w_rule } else { "" }) },
        "samples": samples,
        "exhaustive": capped.is_empty(),
        "caps_hit": capped,
        "deviation_level_completed_min": min_level,
        "deviation_bound_min_over_scenarios": min_bound,
        "jobs_total": results.len(),
        "determinism_rechecks": results.iter().map(|r| r.rechecks).sum::<u64>(),
        "run_queue_pick_points": results.iter().filter_map(|r| r.extra.get("run_queue_pick_points").and_then(|v| v.as_u64())).sum::<u64>(),
        "run_queue_orders_explored": results.iter().filter_map(|r| r.extra.get("run_queue_alternatives").and_then(|v| v.as_u64())).sum::<u64>(),
        "preemption_points": results.iter().filter_map(|r| r.extra.get("preemption_points").and_then(|v| v.as_u64())).sum::<u64>(),
        "preemptions_explored": results.iter().filter_map(|r| r.extra.get("preemption_alternatives").and_then(|v| v.as_u64())).sum::<u64>(),
        "jobs": per_job,
        "known_findings_reproduced": known_hits,
        "explanation": "There is no separate model of the plugin: every counted transition is an execution of the implementation compiled from /repo/src (by #[path]) under the controlled scheduler; `traces_validated_against_impl` therefore equals the number of complete histories executed. Only the environment (SimNode) is modelled.",
    });
    if states == 0 {
        // pure input enumeration: drop the model-checking keys so that the generic keys apply
        coverage.as_object_mut().unwrap().remove("states");
        coverage.as_object_mut().unwrap().remove("transitions");
        coverage.as_object_mut().unwrap().remove("traces_validated_against_impl");
    }
    let evidence = json!({
        "property_id": id,
        "tier": if thorough { "thorough" } else { "quick" },
        "seed": seed,
        "level": level,
        "coverage": coverage,
        "assumptions": [
            "A1-A5 of DESIGN.md section 2.4 (Core Lightning contract: pay endings vs parts, no new parts without a running pay, HTLC amount bounds, waitsendpay codes, finitely many faults)",
            "plugin tasks interleave only at .await points (every shared access is under tokio::sync primitives); among runnable tasks the oldest runs first except at one moment per step, where every other order is explored as a deviation",
            "rustc / cargo; vendored tokio 1.38.0 with the select-hook and run-queue-hook patch (vendor/tokio.patch)"
        ],
        "wall_s": t0.elapsed().as_secs_f64(),
        "violations": violations,
    });
    let _ = std::fs::create_dir_all(format!("{}/evidence", out_dir()));
    let _ = std::fs::write(format!("{}/evidence/{}.json", out_dir(), id), serde_json::to_string_pretty(&evidence).unwrap());
    println!(
        "{} {}: jobs {} histories {} states {} transitions {} evaluations {} outcomes {} run-queue orders {} preemptions {} caps {} wall {:.1}s",
        id,
        if thorough { "thorough" } else { "quick" },
        results.len(),
        runs,
        states,
        transitions,
        evals,
        distinct,
        results.iter().filter_map(|r| r.extra.get("run_queue_alternatives").and_then(|v| v.as_u64())).sum::<u64>(),
        results.iter().filter_map(|r| r.extra.get("preemption_alternatives").and_then(|v| v.as_u64())).sum::<u64>(),
        capped.len(),
        t0.elapsed().as_secs_f64()
    );
    for l in &viol_lines {
        println!("{}", l);
    }
    if violations > 0 {
        1
    } else {
        0
    }
}

fn run_jobs(jobs: &[Job], thorough: bool, t0: Instant, seed: u64) -> Vec<JobResult> {
    let cap = if thorough {
        Duration::from_secs(std::env::var("VERIF_THOROUGH_CAP_S").ok().and_then(|s| s.parse().ok()).unwrap_or(2400))
    } else {
        Duration::from_secs(std::env::var("VERIF_QUICK_CAP_S").ok().and_then(|s| s.parse().ok()).unwrap_or(240))
    };
    let deadline = t0 + cap;
    let ncpu = std::thread::available_parallelism().map(|n| n.get()).unwrap_or(8).min(16);
    // small jobs: a pool of single-threaded explorers; big jobs: one after another on all cores
    let (big, small): (Vec<&Job>, Vec<&Job>) = jobs.iter().partition(|j| matches!(j, Job::W { big: true, .. } | Job::I { .. } | Job::Other { .. } | Job::B { .. }));
    let results: Mutex<Vec<JobResult>> = Mutex::new(Vec::new());
    {
        let queue: Mutex<Vec<&Job>> = Mutex::new(small.into_iter().rev().collect());
        std::thread::scope(|s| {
            for _ in 0..ncpu {
                s.spawn(|| loop {
                    let j = queue.lock().unwrap().pop();
                    match j {
                        Some(j) => {
                            let r = run_job(j, thorough, 1, deadline, seed);
                            results.lock().unwrap().push(r);
                        }
                        None => return,
                    }
                });
            }
        });
    }
    for j in big {
        let r = run_job(j, thorough, ncpu, deadline, seed);
        results.lock().unwrap().push(r);
    }
    let results = results.into_inner().unwrap();

    results
}

pub fn result_to_json(r: &JobResult) -> Value {
    json!({
        "name": r.name, "engine": r.engine, "bound": r.bound, "states": r.states, "transitions": r.transitions, "runs": r.runs,
        "distinct_outcomes": r.distinct_outcomes, "nontrivial_outcomes": r.nontrivial_outcomes, "level_completed": r.level_completed,
        "capped": r.capped, "depth_capped": r.depth_capped, "rechecks": r.rechecks, "evaluations": r.evaluations, "nontrivial": r.nontrivial,
        "samples": r.samples, "error": r.error, "rule": r.rule, "exhaustive": r.exhaustive, "extra": r.extra,
        "found": r.found.iter().map(|f| json!({"property": f.violation.property, "clause": f.violation.clause, "shape": f.violation.shape, "detail": f.violation.detail, "cost": f.cost, "replay": f.replay})).collect::<Vec<_>>(),
    })
}

/// Build output directory (the registered commands use /verif/.target; background sweeps may use another).
pub fn target_dir() -> String {
    std::env::var("VERIF_TARGET").unwrap_or_else(|_| "/verif/.target".to_string())
}

fn leak(s: &str) -> &'static str {
    Box::leak(s.to_string().into_boxed_str())
}

pub fn result_from_json(v: &Value, suffix: &str) -> JobResult {
    let mut r = JobResult {
        name: format!("{}{}", v["name"].as_str().unwrap_or(""), suffix),
        engine: v["engine"].as_str().unwrap_or("").to_string(),
        bound: v["bound"].as_u64().unwrap_or(0) as u32,
        states: v["states"].as_u64().unwrap_or(0),
        transitions: v["transitions"].as_u64().unwrap_or(0),
        runs: v["runs"].as_u64().unwrap_or(0),
        distinct_outcomes: v["distinct_outcomes"].as_u64().unwrap_or(0),
        nontrivial_outcomes: v["nontrivial_outcomes"].as_u64().unwrap_or(0),
        level_completed: v["level_completed"].as_i64().unwrap_or(0) as i32,
        capped: v["capped"].as_bool().unwrap_or(false),
        depth_capped: v["depth_capped"].as_u64().unwrap_or(0),
        rechecks: v["rechecks"].as_u64().unwrap_or(0),
        evaluations: v["evaluations"].as_u64().unwrap_or(0),
        nontrivial: v["nontrivial"].as_u64().unwrap_or(0),
        samples: v["samples"].as_array().cloned().unwrap_or_default(),
        error: v["error"].as_str().map(|s| s.to_string()),
        rule: v["rule"].as_str().map(|s| s.to_string()),
        exhaustive: v["exhaustive"].as_bool().unwrap_or(false),
        extra: v["extra"].as_object().map(|o| o.iter().map(|(k, v)| (k.clone(), v.clone())).collect()).unwrap_or_default(),
        ..Default::default()
    };
    for f in v["found"].as_array().cloned().unwrap_or_default() {
        let mut replay = f["replay"].clone();
        if !suffix.is_empty() {
            replay["build"] = json!(suffix.trim());
        }
        r.found.push(FoundAny {
            violation: Violation {
                property: leak(f["property"].as_str().unwrap_or("")),
                clause: leak(f["clause"].as_str().unwrap_or("")),
                shape: f["shape"].as_str().unwrap_or("").to_string(),
                detail: f["detail"].as_str().unwrap_or("").to_string(),
            },
            cost: f["cost"].as_u64().unwrap_or(0) as u32,
            replay,
        });
    }
    r
}

/// Run the same job list in the sibling binary built without overflow checks.
fn run_sub(id: &str, thorough: bool) -> Result<Vec<JobResult>, String> {
    let exe_s = format!("{}/mcw/check", target_dir());
    let exe = exe_s.as_str();
    let out = std::process::Command::new(exe)
        .args(["__sub", id, if thorough { "thorough" } else { "quick" }])
        .output()
        .map_err(|e| format!("cannot run {}: {}", exe, e))?;
    if !out.status.success() {
        return Err(format!("{} failed: {}", exe, String::from_utf8_lossy(&out.stderr)));
    }
    let v: Value = serde_json::from_slice(&out.stdout).map_err(|e| format!("bad output from {}: {}", exe, e))?;
    Ok(v.as_array().cloned().unwrap_or_default().iter().map(|x| result_from_json(x, " [wrapping build]")).collect())
}

fn trunc(s: &str, n: usize) -> String {
    s.chars().take(n).collect()
}

fn find_w_cfg(name: &str) -> Option<std::sync::Arc<engine_w::WCfg>> {
    for id in suite::ALL_IDS {
        for th in [false, true] {
            for j in suite::jobs(id, th) {
                if let Job::W { cfg, .. } = j {
                    if cfg.name == name {
                        // evaluate every oracle during a replay
                        let mut c = (*cfg).clone();
                        c.props = scen::ALL_W.iter().cloned().collect();
                        return Some(std::sync::Arc::new(c));
                    }
                }
            }
        }
    }
    None
}

fn find_p_cfg(name: &str) -> Option<engine_p::PCfg> {
    for id in ["C15", "C16"] {
        for th in [false, true] {
            for j in suite::jobs(id, th) {
                if let Job::P { cfg, .. } = j {
                    if cfg.name == name {
                        return Some(cfg);
                    }
                }
            }
        }
    }
    None
}

fn run_replay(path: &str) -> i32 {
    let doc: Value = match std::fs::read_to_string(path).ok().and_then(|s| serde_json::from_str(&s).ok()) {
        Some(d) => d,
        None => {
            eprintln!("cannot read {}", path);
            return 2;
        }
    };
    let engine = doc["engine"].as_str().unwrap_or("");
    let scenario = doc["scenario"].as_str().unwrap_or("");
    let prop = doc["property"].as_str().unwrap_or("");
    let labels: Vec<String> = doc["labels"].as_array().map(|a| a.iter().filter_map(|x| x.as_str().map(|s| s.to_string())).collect()).unwrap_or_default();
    println!("replaying {} engine {} scenario {}", path, engine, scenario);
    // the replay thread owns select! start branches and the run-queue order exactly as the search workers do
    sched::own_select();
    let (log, vs): (Vec<String>, Vec<Violation>) = match engine {
        "W" => {
            let cfg = match find_w_cfg(scenario) {
                Some(c) => c,
                None => {
                    eprintln!("unknown scenario {}", scenario);
                    return 2;
                }
            };
            match explore::replay_labels::<engine_w::W>(&cfg, &labels, true) {
                Ok(mut m) => (m.log(), m.take_violations()),
                Err(e) => {
                    eprintln!("{}", e);
                    return 2;
                }
            }
        }
        "P" => {
            let cfg = match find_p_cfg(scenario) {
                Some(c) => c,
                None => {
                    eprintln!("unknown scenario {}", scenario);
                    return 2;
                }
            };
            match explore::replay_labels::<engine_p::P>(&cfg, &labels, true) {
                Ok(mut m) => (m.log(), m.take_violations()),
                Err(e) => {
                    eprintln!("{}", e);
                    return 2;
                }
            }
        }
        "I" => {
            // inputs are re-evaluated by running the (fast) quick enumeration of that job and filtering by signature
            let mut vs = Vec::new();
            for id in suite::ALL_IDS {
                for j in suite::jobs(id, false) {
                    if let Job::I { name, run } = j {
                        if name == scenario {
                            let rep = run(false, 16);
                            for (v, input) in rep.found {
                                println!("  input {}", input);
                                vs.push(v);
                            }
                        }
                    }
                }
            }
            (vec![format!("input {}", doc["input"])], vs)
        }
        "E" => match engine_e::replay(&doc["config"]) {
            Ok(vs) => (vec![format!("configuration {}", doc["config"])], vs),
            Err(e) => {
                eprintln!("{}", e);
                return 2;
            }
        },
        "B" => {
            let mut found = None;
            for th in [false, true] {
                for (cfg, _) in engine_b::configs(th) {
                    if cfg.name == scenario {
                        found = Some(cfg);
                    }
                }
            }
            match found.map(|cfg| explore::replay_labels::<engine_b::B>(&cfg, &labels, true)) {
                Some(Ok(mut m)) => (m.log(), m.take_violations()),
                Some(Err(e)) => {
                    eprintln!("{}", e);
                    return 2;
                }
                None => {
                    eprintln!("unknown scenario {}", scenario);
                    return 2;
                }
            }
        }
        "F" => {
            // engine F episodes are cheap: re-run the job the episode came from and keep the recorded signature
            let want = doc["signature"].as_str().unwrap_or("").to_string();
            let r = if scenario.contains("logging") { engine_f::run_logging_child(false, 1, "F/logging") } else { engine_f::run(false, 1, "F/plain") };
            if let Some(e) = r.error {
                eprintln!("{}", e);
                return 2;
            }
            let vs: Vec<Violation> = r.found.into_iter().map(|f| f.violation).filter(|v| want.is_empty() || v.signature() == want).collect();
            (vec![format!("episode {}", doc["episode"])], vs)
        }
        _ => {
            eprintln!("engine {:?}: re-run the check itself (./check {} ) to reproduce; the file records the failing episode", engine, prop);
            return 2;
        }
    };
    for l in &log {
        println!("  | {}", l);
    }
    let mut hit = false;
    for v in &vs {
        println!("  violation {} :: {}", v.signature(), trunc(&v.detail, 400));
        if v.property == prop || prop.is_empty() {
            hit = true;
        }
    }
    if hit {
        println!("reproduced");
        1
    } else {
        println!("not reproduced on the current tree");
        0
    }
}

fn main() {
    std::env::remove_var("RUST_BACKTRACE");
    std::env::set_var("RUST_LIB_BACKTRACE", "0");
    sched::install_panic_hook();
    let args: Vec<String> = std::env::args().collect();
    if args.len() < 2 {
        eprintln!("usage: check <ID> [--tier quick|thorough] | check replay <file>");
        std::process::exit(2);
    }
    if args[1] == "__sub" {
        let id = args.get(2).cloned().unwrap_or_default();
        let thorough = args.get(3).map(|t| t == "thorough").unwrap_or(false);
        let seed: u64 = std::env::var("VERIF_SEED").ok().and_then(|s| s.parse().ok()).unwrap_or(0);
        let jobs = suite::jobs(&id, thorough);
        let res = run_jobs(&jobs, thorough, Instant::now(), seed);
        println!("{}", Value::Array(res.iter().map(result_to_json).collect()));
        return;
    }
    if args[1] == "__flog" {
        // engine F with logging on needs a process of its own (tracing's global subscriber)
        let thorough = args.get(2).map(|t| t == "thorough").unwrap_or(false);
        let r = engine_f::run(thorough, 1, "F/logging");
        println!("{}", result_to_json(&r));
        return;
    }
    if args[1] == "replay" {
        std::process::exit(run_replay(args.get(2).map(|s| s.as_str()).unwrap_or("")));
    }
    let mut thorough = std::env::var("VERIF_TIER").map(|t| t == "thorough").unwrap_or(false);
    let mut i = 2;
    while i < args.len() {
        if args[i] == "--tier" {
            thorough = args.get(i + 1).map(|t| t == "thorough").unwrap_or(false);
            i += 1;
        }
        i += 1;
    }
    std::process::exit(run_check(&args[1], thorough));
}
