//! trampoline-mc: exhaustive bounded exploration of the real breez/trampoline
//! code (compiled in by path) under an environment the checker owns.
#![allow(dead_code, unused_imports, unused_variables, clippy::all)]

// The subject's crate root defines this alias; `crate::Error` is used by cln_plugin.
pub use anyhow::Error;

include!(concat!(env!("OUT_DIR"), "/subject_mods.rs"));

pub mod clock;
pub mod common;
pub mod engine_i;
pub mod engine_p;
pub mod engine_w;
pub mod explore;
pub mod scen;
pub mod sched;
pub mod sim;

use std::time::{Duration, Instant};

fn main() {
    std::env::remove_var("RUST_BACKTRACE");
    std::env::set_var("RUST_LIB_BACKTRACE", "0");
    sched::install_panic_hook();
    let args: Vec<String> = std::env::args().collect();
    let bound: u32 = args.get(2).and_then(|s| s.parse().ok()).unwrap_or(1);
    let limits = explore::Limits {
        max_depth: 90,
        deadline: Instant::now() + Duration::from_secs(600),
        threads: 16,
        recheck_every: 50,
        max_states: 50_000_000,
    };
    let which = args.get(1).cloned().unwrap_or_default();
    if which == "i12" || which == "i18" {
        let rep = if which == "i12" { engine_i::c12_fee(false) } else { engine_i::c18(false, 16) };
        println!("evals {} nontrivial {} found {}", rep.evaluations, rep.distinct_nontrivial, rep.found.len());
        for f in &rep.found {
            println!("  FOUND {} :: {}", f.0.signature(), &f.0.detail[..f.0.detail.len().min(300)]);
        }
        return;
    }
    let cfgs = match which.as_str() {
        "life" => vec![scen::with_props(scen::s_life("S-life/2htlc", true, false, false), scen::ALL_W)],
        "life1" => vec![scen::with_props(scen::s_life("S-life/1htlc", false, false, true), scen::ALL_W)],
        "c09" => {
            let mut c = scen::s_life("S-life/1htlc/probe", false, false, false);
            c.probe = true;
            vec![scen::with_props(c, &["C09"])]
        }
        "hash" => vec![
            scen::with_props(scen::s_hash(1, 1, false), scen::ALL_W),
            scen::with_props(scen::s_hash(1, 2, false), scen::ALL_W),
        ],
        "hist" => ["none", "free", "pending-nopart", "pending-noattempt", "pending-pendingpart", "pending-failedpart", "pending-completepart", "succeeded"]
            .iter()
            .map(|k| scen::with_props(scen::s_hist(k, 0, false), scen::ALL_W))
            .collect(),
        _ => vec![],
    };
    if args.get(3).map(|s| s == "-e").unwrap_or(false) {
        use explore::Model;
        let mut w = engine_w::W::new(&cfgs[0]);
        for _ in 0..6 {
            let en = w.enabled();
            println!("{:?}", en.iter().map(|c| format!("{}:{}", c.label, c.cost)).collect::<Vec<_>>());
            w.apply(0);
        }
        return;
    }
    for cfg in cfgs {
        let out = explore::explore::<engine_w::W>(&cfg, bound, &limits);
        println!("{} -> {:?} err={:?}", cfg.name, out.stats, out.error);
        for f in &out.found {
            println!("  FOUND {} cost {} : {}", f.violation.signature(), f.cost, f.violation.detail);
            println!("    history: {:?}", f.labels);
        }
        if args.get(3).map(|s| s == "-v").unwrap_or(false) {
            for (l, log) in out.samples.iter().take(1) {
                for line in log {
                    println!("    | {}", line);
                }
            }
        }
    }
}
