//! trampoline-mc: exhaustive bounded exploration of the real breez/trampoline
//! code (compiled in by path) under an environment the checker owns.
#![allow(dead_code, unused_imports, unused_variables, clippy::all)]

// The subject's crate root defines this alias; `crate::Error` is used by cln_plugin.
pub use anyhow::Error;

include!(concat!(env!("OUT_DIR"), "/subject_mods.rs"));

pub mod clock;
pub mod common;
pub mod engine_p;
pub mod explore;
pub mod sched;
pub mod sim;

use std::time::{Duration, Instant};

fn main() {
    sched::install_panic_hook();
    let args: Vec<String> = std::env::args().collect();
    let limits = explore::Limits {
        max_depth: 64,
        deadline: Instant::now() + Duration::from_secs(600),
        threads: 16,
        recheck_every: 50,
        max_states: 50_000_000,
    };
    let mut cfgs = engine_p::configs_wait(2, false);
    cfgs.extend(engine_p::configs_pay(2, false));
    for cfg in cfgs {
        let out = explore::explore::<engine_p::P>(&cfg, 0, &limits);
        println!("{} -> {:?} err={:?}", cfg.name, out.stats, out.error);
        for f in &out.found {
            println!("  FOUND {} cost {} : {}", f.violation.signature(), f.cost, f.violation.detail);
            println!("    history: {:?}", f.labels);
        }
    }
}
