//! Stateless (replay-based) depth-first search with iterative deviation
//! bounding and an explicit visited set, over a `Model` whose transitions are
//! executions of the real code.
use std::{
    collections::{BTreeMap, HashSet},
    sync::{
        atomic::{AtomicBool, AtomicU64, AtomicUsize, Ordering},
        Mutex,
    },
    time::{Duration, Instant},
};

#[derive(Clone, Debug)]
pub struct Choice {
    pub label: String,
    /// 0 = default environment answer, 1 = a deviation.
    pub cost: u8,
}

#[derive(Clone, Debug)]
pub struct Violation {
    pub property: &'static str,
    pub clause: &'static str,
    /// Stable, coarse identification of *what* fails (used for known findings / dedup).
    pub shape: String,
    pub detail: String,
}

impl Violation {
    pub fn signature(&self) -> String {
        format!("{}/{}/{}", self.property, self.clause, self.shape)
    }
}

pub trait Model: Sized {
    type Cfg: Sync;
    fn new(cfg: &Self::Cfg) -> Self;
    /// Enabled events in canonical order (cheapest first).
    fn enabled(&mut self) -> Vec<Choice>;
    fn apply(&mut self, idx: usize);
    /// Canonical state key (without the budget).
    fn key(&self) -> u128;
    /// End-of-run oracles; called once when the default path has nothing left to do.
    fn finish(&mut self);
    fn take_violations(&mut self) -> Vec<Violation>;
    /// Hash of the complete observation log of this run (for determinism checks / outcome counting).
    fn trace_hash(&self) -> u64;
    /// Human readable observation log.
    fn log(&self) -> Vec<String>;
    /// A machinery problem detected by the model itself (never a verdict).
    fn machinery_error(&self) -> Option<String> {
        None
    }
    /// Did this run contain something beyond the plain happy path (a crash, a fault, ...)?
    fn nontrivial(&self) -> bool {
        false
    }
    /// Scheduling deviation for the next `apply`. `Pick(j, k)`: at the j-th moment of that step at which two or
    /// more plugin tasks are runnable, poll the task at queue position `k` instead of the oldest one.
    /// `Park(n)`: the task that reaches the n-th preemption point of that step (about to lock a mutex, send or
    /// receive on a channel) is suspended there until the next event has taken effect.
    fn set_deviation(&mut self, _dev: Dev) {}
    /// Number of runnable tasks at every pick point of the last `apply` (only points with a choice).
    fn last_pick_points(&self) -> Vec<u8> {
        Vec::new()
    }
    /// Number of preemption points of the last `apply` at which a task may be suspended (0 = not explored here).
    fn last_sync_points(&self) -> u16 {
        0
    }
    /// Was the deviation set for the last `apply` actually reached?
    fn deviation_reached(&self) -> bool {
        true
    }
}

#[derive(Clone, Copy, Debug, PartialEq, Eq)]
pub enum Dev {
    None,
    Pick(u16, u8),
    Park(u16),
}

/// One step of a history: the index of the event among the enabled ones, plus at most one run-queue deviation.
pub type Step = u64;

pub fn enc(idx: usize, dev: Dev) -> Step {
    let idx = idx as u64 & 0xffff;
    match dev {
        Dev::None => idx,
        Dev::Pick(j, k) => idx | (1 << 16) | ((j as u64) << 24) | ((k as u64) << 40),
        Dev::Park(n) => idx | (2 << 16) | ((n as u64) << 24),
    }
}

pub fn dec(s: Step) -> (usize, Dev) {
    let idx = (s & 0xffff) as usize;
    match (s >> 16) & 0xff {
        1 => (idx, Dev::Pick((s >> 24) as u16, (s >> 40) as u8)),
        2 => (idx, Dev::Park((s >> 24) as u16)),
        _ => (idx, Dev::None),
    }
}

pub fn dev_suffix(dev: Dev) -> String {
    match dev {
        Dev::None => String::new(),
        Dev::Pick(j, k) => format!(" ~pick{}={}", j, k),
        Dev::Park(n) => format!(" ~park{}", n),
    }
}

/// Splits "label ~pickJ=K" / "label ~parkN" into the plain label and the scheduling deviation.
pub fn split_dev(label: &str) -> (&str, Dev) {
    if let Some(pos) = label.rfind(" ~pick") {
        let rest = &label[pos + 6..];
        let mut it = rest.split('=');
        if let (Some(j), Some(k)) = (it.next().and_then(|x| x.parse().ok()), it.next().and_then(|x| x.parse().ok())) {
            return (&label[..pos], Dev::Pick(j, k));
        }
    }
    if let Some(pos) = label.rfind(" ~park") {
        if let Ok(n) = label[pos + 6..].parse() {
            return (&label[..pos], Dev::Park(n));
        }
    }
    (label, Dev::None)
}

#[derive(Clone, Debug)]
pub struct Found {
    pub violation: Violation,
    pub cost: u32,
    pub choices: Vec<Step>,
    pub labels: Vec<String>,
    pub log: Vec<String>,
}

#[derive(Default, Debug, Clone)]
pub struct Stats {
    pub runs: u64,
    pub transitions_total: u64,
    pub transitions_new: u64,
    pub states: u64,
    pub pruned: u64,
    pub max_depth: usize,
    pub distinct_outcomes: u64,
    pub nontrivial_outcomes: u64,
    pub depth_capped_runs: u64,
    pub time_capped: bool,
    pub level_completed: i32,
    pub determinism_rechecks: u64,
    /// moments at which two or more plugin tasks were runnable (new transitions only)
    pub pick_points: u64,
    /// histories started from a non-FIFO choice at such a moment
    pub pick_alternatives: u64,
    /// preemption points (new transitions only) / histories started by suspending a task at one
    pub sync_points: u64,
    pub park_alternatives: u64,
    pub wall_s: f64,
}

pub struct Limits {
    pub max_depth: usize,
    pub deadline: Instant,
    pub threads: usize,
    pub recheck_every: u64,
    pub max_states: u64,
}

const SHARDS: usize = 64;

struct Shared<'a, M: Model> {
    cfg: &'a M::Cfg,
    bound: u32,
    stack: Mutex<Vec<Vec<Step>>>,
    in_flight: AtomicUsize,
    visited: Vec<Mutex<HashSet<u128>>>,
    outcomes: Mutex<HashSet<u64>>,
    nontrivial: AtomicU64,
    found: Mutex<BTreeMap<String, Found>>,
    runs: AtomicU64,
    trans_total: AtomicU64,
    trans_new: AtomicU64,
    pruned: AtomicU64,
    states: AtomicU64,
    capped_runs: AtomicU64,
    rechecks: AtomicU64,
    pick_points: AtomicU64,
    pick_alts: AtomicU64,
    sync_points: AtomicU64,
    park_alts: AtomicU64,
    max_depth_seen: AtomicUsize,
    time_capped: AtomicBool,
    error: Mutex<Option<String>>,
    limits: &'a Limits,
    samples: Mutex<Vec<(Vec<String>, Vec<String>)>>,
}

fn mix(key: u128, budget: u32) -> u128 {
    key ^ ((budget as u128 + 1).wrapping_mul(0x9E37_79B9_7F4A_7C15_F39C_C060_5CED_C835))
}

struct RunResult {
    children: Vec<Vec<Step>>,
    trace: u64,
    leaf: bool,
}

/// Histories that differ from the one just run only in which runnable task was polled first at one moment of
/// its last step (cost: one deviation). Generated by the one run that executes that step for the first time.
fn pick_children<M: Model>(sh: &Shared<M>, m: &M, choices: &[Step], cost: u32, children: &mut Vec<Vec<Step>>) {
    let (idx, dev) = dec(*choices.last().unwrap());
    if dev != Dev::None {
        // a second deviation inside the same step is not explored (stated bound: one per step)
        return;
    }
    let points = m.last_pick_points();
    let syncs = m.last_sync_points();
    sh.pick_points.fetch_add(points.len() as u64, Ordering::Relaxed);
    sh.sync_points.fetch_add(syncs as u64, Ordering::Relaxed);
    if cost + 1 > sh.bound {
        return;
    }
    for n in 0..syncs {
        let mut p = choices[..choices.len() - 1].to_vec();
        p.push(enc(idx, Dev::Park(n)));
        children.push(p);
        sh.park_alts.fetch_add(1, Ordering::Relaxed);
    }
    for (j, n) in points.iter().enumerate() {
        for k in 1..*n {
            let mut p = choices[..choices.len() - 1].to_vec();
            p.push(enc(idx, Dev::Pick(j as u16, k)));
            children.push(p);
            sh.pick_alts.fetch_add(1, Ordering::Relaxed);
        }
    }
}

fn run_one<M: Model>(sh: &Shared<M>, prefix: &[Step], record: bool) -> Result<RunResult, String> {
    let mut m = M::new(sh.cfg);
    let mut cost: u32 = 0;
    let mut choices: Vec<Step> = Vec::with_capacity(prefix.len() + 32);
    let mut labels: Vec<String> = Vec::new();
    let mut children = Vec::new();
    let mut steps_total = 0u64;
    let mut steps_new = 0u64;
    for &c in prefix {
        let (idx, dev) = dec(c);
        let en = m.enabled();
        if idx >= en.len() {
            return Err(format!("replay diverged: choice {} not enabled at step {} (labels so far {:?})", idx, choices.len(), labels));
        }
        cost += en[idx].cost as u32 + (dev != Dev::None) as u32;
        labels.push(format!("{}{}", en[idx].label, dev_suffix(dev)));
        if dev != Dev::None {
            m.set_deviation(dev);
        }
        m.apply(idx);
        if dev != Dev::None && !m.deviation_reached() {
            return Err(format!("replay diverged: scheduling deviation {:?} does not exist at step {} (labels {:?})", dev, choices.len(), labels));
        }
        choices.push(c);
        steps_total += 1;
    }
    if !prefix.is_empty() {
        steps_new += 1;
        if record && choices.len() <= sh.limits.max_depth {
            pick_children(sh, &m, &choices, cost, &mut children);
        }
    }
    let mut leaf = false;
    loop {
        if let Some(e) = m.machinery_error() {
            return Err(format!("{} (history {:?})", e, labels));
        }
        let budget = sh.bound - cost;
        if record {
            let k = mix(m.key(), budget);
            let shard = (k as usize) % SHARDS;
            let fresh = sh.visited[shard].lock().unwrap().insert(k);
            if !fresh {
                sh.pruned.fetch_add(1, Ordering::Relaxed);
                break;
            }
            sh.states.fetch_add(1, Ordering::Relaxed);
        }
        let en = m.enabled();
        let capped = choices.len() >= sh.limits.max_depth;
        if record && !capped {
            for (alt, ch) in en.iter().enumerate() {
                if alt == 0 && ch.cost == 0 {
                    continue;
                }
                if cost + ch.cost as u32 <= sh.bound {
                    let mut p = choices.clone();
                    p.push(enc(alt, Dev::None));
                    children.push(p);
                }
            }
        }
        if en.is_empty() || en[0].cost > 0 || capped {
            if capped && !(en.is_empty() || en[0].cost > 0) {
                sh.capped_runs.fetch_add(1, Ordering::Relaxed);
            }
            m.finish();
            leaf = true;
            break;
        }
        labels.push(en[0].label.clone());
        m.apply(0);
        choices.push(0);
        steps_total += 1;
        steps_new += 1;
        if record {
            pick_children(sh, &m, &choices, cost, &mut children);
        }
    }
    if let Some(e) = m.machinery_error() {
        return Err(format!("{} (history {:?})", e, labels));
    }
    sh.max_depth_seen.fetch_max(choices.len(), Ordering::Relaxed);
    let trace = m.trace_hash();
    if record {
        sh.runs.fetch_add(1, Ordering::Relaxed);
        sh.trans_total.fetch_add(steps_total, Ordering::Relaxed);
        sh.trans_new.fetch_add(steps_new, Ordering::Relaxed);
        if leaf {
            let mut o = sh.outcomes.lock().unwrap();
            if o.insert(trace) {
                if m.nontrivial() {
                    sh.nontrivial.fetch_add(1, Ordering::Relaxed);
                }
                if o.len() <= 3 {
                    sh.samples.lock().unwrap().push((labels.clone(), m.log()));
                }
            }
        }
        let vs = m.take_violations();
        if !vs.is_empty() {
            let mut found = sh.found.lock().unwrap();
            for v in vs {
                let sig = v.signature();
                let better = match found.get(&sig) {
                    None => true,
                    Some(f) => (cost, choices.len()) < (f.cost, f.choices.len()),
                };
                if better {
                    found.insert(
                        sig,
                        Found {
                            violation: v,
                            cost,
                            choices: choices.clone(),
                            labels: labels.clone(),
                            log: m.log(),
                        },
                    );
                }
            }
        }
    }
    Ok(RunResult { children, trace, leaf })
}

fn worker<M: Model>(sh: &Shared<M>) {
    let mut idle_spins = 0u32;
    loop {
        if sh.error.lock().unwrap().is_some() {
            return;
        }
        if Instant::now() > sh.limits.deadline || sh.states.load(Ordering::Relaxed) > sh.limits.max_states {
            sh.time_capped.store(true, Ordering::Relaxed);
            return;
        }
        let job = {
            let mut st = sh.stack.lock().unwrap();
            let j = st.pop();
            if j.is_some() {
                sh.in_flight.fetch_add(1, Ordering::SeqCst);
            }
            j
        };
        let job = match job {
            Some(j) => j,
            None => {
                if sh.in_flight.load(Ordering::SeqCst) == 0 {
                    // re-check the stack under the lock to avoid a lost job
                    if sh.stack.lock().unwrap().is_empty() && sh.in_flight.load(Ordering::SeqCst) == 0 {
                        return;
                    }
                }
                idle_spins += 1;
                if idle_spins > 50 {
                    std::thread::sleep(Duration::from_micros(200));
                } else {
                    std::thread::yield_now();
                }
                continue;
            }
        };
        idle_spins = 0;
        let res = std::panic::catch_unwind(std::panic::AssertUnwindSafe(|| run_one(sh, &job, true))).unwrap_or_else(|_| {
            Err(format!("explorer worker panicked: {:?} (job {:?})", crate::sched::take_panics(), job))
        });
        match res {
            Ok(r) => {
                let n = sh.runs.load(Ordering::Relaxed);
                if sh.limits.recheck_every > 0 && n % sh.limits.recheck_every == 0 {
                    // determinism self-check: the same history must give the same observations
                    match run_one(sh, &job, false) {
                        Ok(r2) => {
                            sh.rechecks.fetch_add(1, Ordering::Relaxed);
                            // the same history must give bit-identical observations (a run cut short at
                            // an already visited state has no complete log to compare)
                            if r.leaf && r2.leaf && r2.trace != r.trace {
                                *sh.error.lock().unwrap() = Some(format!("nondeterminism: history {:?} produced two different observation logs", job));
                            }
                        }
                        Err(e) => *sh.error.lock().unwrap() = Some(e),
                    }
                }
                if !r.children.is_empty() {
                    let mut st = sh.stack.lock().unwrap();
                    // push in reverse so that cheaper / earlier alternatives are explored first
                    for c in r.children.into_iter().rev() {
                        st.push(c);
                    }
                }
            }
            Err(e) => {
                *sh.error.lock().unwrap() = Some(e);
            }
        }
        sh.in_flight.fetch_sub(1, Ordering::SeqCst);
    }
}

pub struct Outcome {
    pub stats: Stats,
    pub found: Vec<Found>,
    pub samples: Vec<(Vec<String>, Vec<String>)>,
    pub error: Option<String>,
}

/// Explore every history with at most `max_bound` deviations, level by level.
pub fn explore<M: Model>(cfg: &M::Cfg, max_bound: u32, limits: &Limits) -> Outcome {
    let t0 = Instant::now();
    let mut total = Stats {
        level_completed: -1,
        ..Default::default()
    };
    let mut all_found: BTreeMap<String, Found> = BTreeMap::new();
    let mut samples = Vec::new();
    let mut error = None;
    for bound in 0..=max_bound {
        let sh: Shared<M> = Shared {
            cfg,
            bound,
            stack: Mutex::new(vec![Vec::new()]),
            in_flight: AtomicUsize::new(0),
            visited: (0..SHARDS).map(|_| Mutex::new(HashSet::new())).collect(),
            outcomes: Mutex::new(HashSet::new()),
            nontrivial: AtomicU64::new(0),
            found: Mutex::new(BTreeMap::new()),
            runs: AtomicU64::new(0),
            trans_total: AtomicU64::new(0),
            trans_new: AtomicU64::new(0),
            pruned: AtomicU64::new(0),
            states: AtomicU64::new(0),
            capped_runs: AtomicU64::new(0),
            rechecks: AtomicU64::new(0),
            pick_points: AtomicU64::new(0),
            pick_alts: AtomicU64::new(0),
            sync_points: AtomicU64::new(0),
            park_alts: AtomicU64::new(0),
            max_depth_seen: AtomicUsize::new(0),
            time_capped: AtomicBool::new(false),
            error: Mutex::new(None),
            limits,
            samples: Mutex::new(Vec::new()),
        };
        std::thread::scope(|s| {
            for _ in 0..limits.threads.max(1) {
                s.spawn(|| {
                    crate::sched::own_select();
                    worker(&sh)
                });
            }
        });
        if let Some(e) = sh.error.lock().unwrap().clone() {
            error = Some(e);
            break;
        }
        let capped = sh.time_capped.load(Ordering::Relaxed);
        // numbers of the deepest level are the ones reported (each level re-explores the previous one)
        total.runs += sh.runs.load(Ordering::Relaxed);
        total.transitions_total += sh.trans_total.load(Ordering::Relaxed);
        total.transitions_new = sh.trans_new.load(Ordering::Relaxed);
        total.states = sh.states.load(Ordering::Relaxed);
        total.pruned = sh.pruned.load(Ordering::Relaxed);
        total.max_depth = total.max_depth.max(sh.max_depth_seen.load(Ordering::Relaxed));
        total.distinct_outcomes = sh.outcomes.lock().unwrap().len() as u64;
        total.nontrivial_outcomes = sh.nontrivial.load(Ordering::Relaxed);
        total.depth_capped_runs = sh.capped_runs.load(Ordering::Relaxed);
        total.determinism_rechecks += sh.rechecks.load(Ordering::Relaxed);
        total.pick_points = sh.pick_points.load(Ordering::Relaxed);
        total.pick_alternatives = sh.pick_alts.load(Ordering::Relaxed);
        total.sync_points = sh.sync_points.load(Ordering::Relaxed);
        total.park_alternatives = sh.park_alts.load(Ordering::Relaxed);
        for (k, f) in sh.found.lock().unwrap().iter() {
            all_found.entry(k.clone()).or_insert_with(|| f.clone());
        }
        if samples.is_empty() || bound == max_bound {
            let s = sh.samples.lock().unwrap().clone();
            if !s.is_empty() {
                samples = s;
            }
        }
        if capped {
            total.time_capped = true;
            break;
        }
        total.level_completed = bound as i32;
    }
    total.wall_s = t0.elapsed().as_secs_f64();
    Outcome {
        stats: total,
        found: all_found.into_values().collect(),
        samples,
        error,
    }
}

/// Replay one history linearly by label (no search). Returns the model after the run.
pub fn replay_labels<M: Model>(cfg: &M::Cfg, labels: &[String], finish: bool) -> Result<M, String> {
    let mut m = M::new(cfg);
    for (i, l) in labels.iter().enumerate() {
        let en = m.enabled();
        let (l, dev) = split_dev(l);
        match en.iter().position(|c| c.label == l) {
            Some(idx) => {
                if dev != Dev::None {
                    m.set_deviation(dev);
                }
                m.apply(idx);
                if dev != Dev::None && !m.deviation_reached() {
                    return Err(format!("replay diverged at step {}: scheduling deviation {:?} does not exist", i, dev));
                }
            }
            None => {
                return Err(format!(
                    "replay diverged at step {}: label {:?} not enabled; enabled = {:?}",
                    i,
                    l,
                    en.iter().map(|c| c.label.clone()).collect::<Vec<_>>()
                ))
            }
        }
    }
    if finish {
        // continue along the default path to the end, as the search does
        loop {
            let en = m.enabled();
            if en.is_empty() || en[0].cost > 0 {
                break;
            }
            m.apply(0);
        }
        m.finish();
    }
    Ok(m)
}
