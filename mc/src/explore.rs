//! Stateless (replay-based) depth-first search with iterative deviation
//! bounding and an explicit visited set, over a `Model` whose transitions are
//! executions of the real code.
use std::{
    collections::{BTreeMap, HashSet},
    sync::{
        atomic::{AtomicBool, AtomicU64, AtomicUsize, Ordering},
        Mutex,
    },
    time::{Duration, Instant},
};

#[derive(Clone, Debug)]
pub struct Choice {
    pub label: String,
    /// 0 = default environment answer, 1 = a deviation.
    pub cost: u8,
}

#[derive(Clone, Debug)]
pub struct Violation {
    pub property: &'static str,
    pub clause: &'static str,
    /// Stable, coarse identification of *what* fails (used for known findings / dedup).
    pub shape: String,
    pub detail: String,
}

impl Violation {
    pub fn signature(&self) -> String {
        format!("{}/{}/{}", self.property, self.clause, self.shape)
    }
}

pub trait Model: Sized {
    type Cfg: Sync;
    fn new(cfg: &Self::Cfg) -> Self;
    /// Enabled events in canonical order (cheapest first).
    fn enabled(&mut self) -> Vec<Choice>;
    fn apply(&mut self, idx: usize);
    /// Canonical state key (without the budget).
    fn key(&self) -> u128;
    /// End-of-run oracles; called once when the default path has nothing left to do.
    fn finish(&mut self);
    fn take_violations(&mut self) -> Vec<Violation>;
    /// Hash of the complete observation log of this run (for determinism checks / outcome counting).
    fn trace_hash(&self) -> u64;
    /// Human readable observation log.
    fn log(&self) -> Vec<String>;
    /// A machinery problem detected by the model itself (never a verdict).
    fn machinery_error(&self) -> Option<String> {
        None
    }
    /// Did this run contain something beyond the plain happy path (a crash, a fault, ...)?
    fn nontrivial(&self) -> bool {
        false
    }
}

#[derive(Clone, Debug)]
pub struct Found {
    pub violation: Violation,
    pub cost: u32,
    pub choices: Vec<u16>,
    pub labels: Vec<String>,
    pub log: Vec<String>,
}

#[derive(Default, Debug, Clone)]
pub struct Stats {
    pub runs: u64,
    pub transitions_total: u64,
    pub transitions_new: u64,
    pub states: u64,
    pub pruned: u64,
    pub max_depth: usize,
    pub distinct_outcomes: u64,
    pub nontrivial_outcomes: u64,
    pub depth_capped_runs: u64,
    pub time_capped: bool,
    pub level_completed: i32,
    pub determinism_rechecks: u64,
    pub wall_s: f64,
}

pub struct Limits {
    pub max_depth: usize,
    pub deadline: Instant,
    pub threads: usize,
    pub recheck_every: u64,
    pub max_states: u64,
}

const SHARDS: usize = 64;

struct Shared<'a, M: Model> {
    cfg: &'a M::Cfg,
    bound: u32,
    stack: Mutex<Vec<Vec<u16>>>,
    in_flight: AtomicUsize,
    visited: Vec<Mutex<HashSet<u128>>>,
    outcomes: Mutex<HashSet<u64>>,
    nontrivial: AtomicU64,
    found: Mutex<BTreeMap<String, Found>>,
    runs: AtomicU64,
    trans_total: AtomicU64,
    trans_new: AtomicU64,
    pruned: AtomicU64,
    states: AtomicU64,
    capped_runs: AtomicU64,
    rechecks: AtomicU64,
    max_depth_seen: AtomicUsize,
    time_capped: AtomicBool,
    error: Mutex<Option<String>>,
    limits: &'a Limits,
    samples: Mutex<Vec<(Vec<String>, Vec<String>)>>,
}

fn mix(key: u128, budget: u32) -> u128 {
    key ^ ((budget as u128 + 1).wrapping_mul(0x9E37_79B9_7F4A_7C15_F39C_C060_5CED_C835))
}

struct RunResult {
    children: Vec<Vec<u16>>,
    trace: u64,
    leaf: bool,
}

fn run_one<M: Model>(sh: &Shared<M>, prefix: &[u16], record: bool) -> Result<RunResult, String> {
    let mut m = M::new(sh.cfg);
    let mut cost: u32 = 0;
    let mut choices: Vec<u16> = Vec::with_capacity(prefix.len() + 32);
    let mut labels: Vec<String> = Vec::new();
    let mut children = Vec::new();
    let mut steps_total = 0u64;
    let mut steps_new = 0u64;
    for &c in prefix {
        let en = m.enabled();
        if (c as usize) >= en.len() {
            return Err(format!("replay diverged: choice {} not enabled at step {} (labels so far {:?})", c, choices.len(), labels));
        }
        cost += en[c as usize].cost as u32;
        labels.push(en[c as usize].label.clone());
        m.apply(c as usize);
        choices.push(c);
        steps_total += 1;
    }
    if !prefix.is_empty() {
        steps_new += 1;
    }
    let mut leaf = false;
    loop {
        if let Some(e) = m.machinery_error() {
            return Err(format!("{} (history {:?})", e, labels));
        }
        let budget = sh.bound - cost;
        if record {
            let k = mix(m.key(), budget);
            let shard = (k as usize) % SHARDS;
            let fresh = sh.visited[shard].lock().unwrap().insert(k);
            if !fresh {
                sh.pruned.fetch_add(1, Ordering::Relaxed);
                break;
            }
            sh.states.fetch_add(1, Ordering::Relaxed);
        }
        let en = m.enabled();
        let capped = choices.len() >= sh.limits.max_depth;
        if record && !capped {
            for (alt, ch) in en.iter().enumerate() {
                if alt == 0 && ch.cost == 0 {
                    continue;
                }
                if cost + ch.cost as u32 <= sh.bound {
                    let mut p = choices.clone();
                    p.push(alt as u16);
                    children.push(p);
                }
            }
        }
        if en.is_empty() || en[0].cost > 0 || capped {
            if capped && !(en.is_empty() || en[0].cost > 0) {
                sh.capped_runs.fetch_add(1, Ordering::Relaxed);
            }
            m.finish();
            leaf = true;
            break;
        }
        labels.push(en[0].label.clone());
        m.apply(0);
        choices.push(0);
        steps_total += 1;
        steps_new += 1;
    }
    if let Some(e) = m.machinery_error() {
        return Err(format!("{} (history {:?})", e, labels));
    }
    sh.max_depth_seen.fetch_max(choices.len(), Ordering::Relaxed);
    let trace = m.trace_hash();
    if record {
        sh.runs.fetch_add(1, Ordering::Relaxed);
        sh.trans_total.fetch_add(steps_total, Ordering::Relaxed);
        sh.trans_new.fetch_add(steps_new, Ordering::Relaxed);
        if leaf {
            let mut o = sh.outcomes.lock().unwrap();
            if o.insert(trace) {
                if m.nontrivial() {
                    sh.nontrivial.fetch_add(1, Ordering::Relaxed);
                }
                if o.len() <= 3 {
                    sh.samples.lock().unwrap().push((labels.clone(), m.log()));
                }
            }
        }
        let vs = m.take_violations();
        if !vs.is_empty() {
            let mut found = sh.found.lock().unwrap();
            for v in vs {
                let sig = v.signature();
                let better = match found.get(&sig) {
                    None => true,
                    Some(f) => (cost, choices.len()) < (f.cost, f.choices.len()),
                };
                if better {
                    found.insert(
                        sig,
                        Found {
                            violation: v,
                            cost,
                            choices: choices.clone(),
                            labels: labels.clone(),
                            log: m.log(),
                        },
                    );
                }
            }
        }
    }
    Ok(RunResult { children, trace, leaf })
}

fn worker<M: Model>(sh: &Shared<M>) {
    let mut idle_spins = 0u32;
    loop {
        if sh.error.lock().unwrap().is_some() {
            return;
        }
        if Instant::now() > sh.limits.deadline || sh.states.load(Ordering::Relaxed) > sh.limits.max_states {
            sh.time_capped.store(true, Ordering::Relaxed);
            return;
        }
        let job = {
            let mut st = sh.stack.lock().unwrap();
            let j = st.pop();
            if j.is_some() {
                sh.in_flight.fetch_add(1, Ordering::SeqCst);
            }
            j
        };
        let job = match job {
            Some(j) => j,
            None => {
                if sh.in_flight.load(Ordering::SeqCst) == 0 {
                    // re-check the stack under the lock to avoid a lost job
                    if sh.stack.lock().unwrap().is_empty() && sh.in_flight.load(Ordering::SeqCst) == 0 {
                        return;
                    }
                }
                idle_spins += 1;
                if idle_spins > 50 {
                    std::thread::sleep(Duration::from_micros(200));
                } else {
                    std::thread::yield_now();
                }
                continue;
            }
        };
        idle_spins = 0;
        let res = std::panic::catch_unwind(std::panic::AssertUnwindSafe(|| run_one(sh, &job, true))).unwrap_or_else(|_| {
            Err(format!("explorer worker panicked: {:?} (job {:?})", crate::sched::take_panics(), job))
        });
        match res {
            Ok(r) => {
                let n = sh.runs.load(Ordering::Relaxed);
                if sh.limits.recheck_every > 0 && n % sh.limits.recheck_every == 0 {
                    // determinism self-check: the same history must give the same observations
                    match run_one(sh, &job, false) {
                        Ok(r2) => {
                            sh.rechecks.fetch_add(1, Ordering::Relaxed);
                            // the same history must give bit-identical observations (a run cut short at
                            // an already visited state has no complete log to compare)
                            if r.leaf && r2.leaf && r2.trace != r.trace {
                                *sh.error.lock().unwrap() = Some(format!("nondeterminism: history {:?} produced two different observation logs", job));
                            }
                        }
                        Err(e) => *sh.error.lock().unwrap() = Some(e),
                    }
                }
                if !r.children.is_empty() {
                    let mut st = sh.stack.lock().unwrap();
                    // push in reverse so that cheaper / earlier alternatives are explored first
                    for c in r.children.into_iter().rev() {
                        st.push(c);
                    }
                }
            }
            Err(e) => {
                *sh.error.lock().unwrap() = Some(e);
            }
        }
        sh.in_flight.fetch_sub(1, Ordering::SeqCst);
    }
}

pub struct Outcome {
    pub stats: Stats,
    pub found: Vec<Found>,
    pub samples: Vec<(Vec<String>, Vec<String>)>,
    pub error: Option<String>,
}

/// Explore every history with at most `max_bound` deviations, level by level.
pub fn explore<M: Model>(cfg: &M::Cfg, max_bound: u32, limits: &Limits) -> Outcome {
    let t0 = Instant::now();
    let mut total = Stats {
        level_completed: -1,
        ..Default::default()
    };
    let mut all_found: BTreeMap<String, Found> = BTreeMap::new();
    let mut samples = Vec::new();
    let mut error = None;
    for bound in 0..=max_bound {
        let sh: Shared<M> = Shared {
            cfg,
            bound,
            stack: Mutex::new(vec![Vec::new()]),
            in_flight: AtomicUsize::new(0),
            visited: (0..SHARDS).map(|_| Mutex::new(HashSet::new())).collect(),
            outcomes: Mutex::new(HashSet::new()),
            nontrivial: AtomicU64::new(0),
            found: Mutex::new(BTreeMap::new()),
            runs: AtomicU64::new(0),
            trans_total: AtomicU64::new(0),
            trans_new: AtomicU64::new(0),
            pruned: AtomicU64::new(0),
            states: AtomicU64::new(0),
            capped_runs: AtomicU64::new(0),
            rechecks: AtomicU64::new(0),
            max_depth_seen: AtomicUsize::new(0),
            time_capped: AtomicBool::new(false),
            error: Mutex::new(None),
            limits,
            samples: Mutex::new(Vec::new()),
        };
        std::thread::scope(|s| {
            for _ in 0..limits.threads.max(1) {
                s.spawn(|| {
                    crate::sched::own_select();
                    worker(&sh)
                });
            }
        });
        if let Some(e) = sh.error.lock().unwrap().clone() {
            error = Some(e);
            break;
        }
        let capped = sh.time_capped.load(Ordering::Relaxed);
        // numbers of the deepest level are the ones reported (each level re-explores the previous one)
        total.runs += sh.runs.load(Ordering::Relaxed);
        total.transitions_total += sh.trans_total.load(Ordering::Relaxed);
        total.transitions_new = sh.trans_new.load(Ordering::Relaxed);
        total.states = sh.states.load(Ordering::Relaxed);
        total.pruned = sh.pruned.load(Ordering::Relaxed);
        total.max_depth = total.max_depth.max(sh.max_depth_seen.load(Ordering::Relaxed));
        total.distinct_outcomes = sh.outcomes.lock().unwrap().len() as u64;
        total.nontrivial_outcomes = sh.nontrivial.load(Ordering::Relaxed);
        total.depth_capped_runs = sh.capped_runs.load(Ordering::Relaxed);
        total.determinism_rechecks += sh.rechecks.load(Ordering::Relaxed);
        for (k, f) in sh.found.lock().unwrap().iter() {
            all_found.entry(k.clone()).or_insert_with(|| f.clone());
        }
        if samples.is_empty() || bound == max_bound {
            let s = sh.samples.lock().unwrap().clone();
            if !s.is_empty() {
                samples = s;
            }
        }
        if capped {
            total.time_capped = true;
            break;
        }
        total.level_completed = bound as i32;
    }
    total.wall_s = t0.elapsed().as_secs_f64();
    Outcome {
        stats: total,
        found: all_found.into_values().collect(),
        samples,
        error,
    }
}

/// Replay one history linearly by label (no search). Returns the model after the run.
pub fn replay_labels<M: Model>(cfg: &M::Cfg, labels: &[String], finish: bool) -> Result<M, String> {
    let mut m = M::new(cfg);
    for (i, l) in labels.iter().enumerate() {
        let en = m.enabled();
        match en.iter().position(|c| &c.label == l) {
            Some(idx) => m.apply(idx),
            None => {
                return Err(format!(
                    "replay diverged at step {}: label {:?} not enabled; enabled = {:?}",
                    i,
                    l,
                    en.iter().map(|c| c.label.clone()).collect::<Vec<_>>()
                ))
            }
        }
    }
    if finish {
        // continue along the default path to the end, as the search does
        loop {
            let en = m.enabled();
            if en.is_empty() || en[0].cost > 0 {
                break;
            }
            m.apply(0);
        }
        m.finish();
    }
    Ok(m)
}
