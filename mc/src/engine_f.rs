//! Engine F: the real cln_plugin Builder / driver / codec over in-memory pipes.
//! Enumerates read-chunk partitions of the node's byte stream, completion orders
//! and timings of the handlers, short writes of the output, and the driver's
//! `select!` start branch. (C17)
use std::{
    collections::VecDeque,
    io,
    pin::Pin,
    sync::{Arc, Mutex},
    task::{Context, Poll, Waker},
};

use serde_json::{json, Value};
use tokio::{
    io::{AsyncRead, AsyncWrite, ReadBuf},
    sync::oneshot,
};

use crate::{
    cln_plugin::{Builder, Plugin},
    explore::Violation,
    sched, FoundAny, JobResult,
};

// ------------------------------------------------------------------ pipes

#[derive(Default)]
struct ReaderState {
    chunks: VecDeque<Vec<u8>>,
    waker: Option<Waker>,
    closed: bool,
    reads: u64,
}

#[derive(Clone, Default)]
pub struct PipeReader(Arc<Mutex<ReaderState>>);

impl PipeReader {
    fn push(&self, chunk: &[u8]) {
        let mut s = self.0.lock().unwrap();
        if !chunk.is_empty() {
            s.chunks.push_back(chunk.to_vec());
        }
        if let Some(w) = s.waker.take() {
            w.wake();
        }
    }
}

impl AsyncRead for PipeReader {
    fn poll_read(self: Pin<&mut Self>, cx: &mut Context<'_>, buf: &mut ReadBuf<'_>) -> Poll<io::Result<()>> {
        let mut s = self.0.lock().unwrap();
        if let Some(mut c) = s.chunks.pop_front() {
            s.reads += 1;
            let n = c.len().min(buf.remaining());
            buf.put_slice(&c[..n]);
            if n < c.len() {
                c.drain(..n);
                s.chunks.push_front(c);
            }
            return Poll::Ready(Ok(()));
        }
        if s.closed {
            return Poll::Ready(Ok(()));
        }
        s.waker = Some(cx.waker().clone());
        Poll::Pending
    }
}

#[derive(Clone, Copy, Debug, PartialEq)]
pub enum WMode {
    All,
    OneByte,
    PendingOnce,
}

#[derive(Default)]
struct WriterState {
    /// the node is not draining the pipe: every poll_write parks until released
    blocked: bool,
    parked: Option<Waker>,
    out: Vec<u8>,
    /// mode for the n-th poll_write call (absent = All)
    modes: std::collections::BTreeMap<u64, WMode>,
    calls: u64,
}

#[derive(Clone, Default)]
pub struct PipeWriter(Arc<Mutex<WriterState>>);

impl AsyncWrite for PipeWriter {
    fn poll_write(self: Pin<&mut Self>, cx: &mut Context<'_>, data: &[u8]) -> Poll<io::Result<usize>> {
        let mut s = self.0.lock().unwrap();
        if s.blocked {
            s.parked = Some(cx.waker().clone());
            return Poll::Pending;
        }
        let n = s.calls;
        s.calls += 1;
        match s.modes.get(&n).copied().unwrap_or(WMode::All) {
            WMode::All => {
                s.out.extend_from_slice(data);
                Poll::Ready(Ok(data.len()))
            }
            WMode::OneByte => {
                let k = data.len().min(1);
                s.out.extend_from_slice(&data[..k]);
                Poll::Ready(Ok(k))
            }
            WMode::PendingOnce => {
                cx.waker().wake_by_ref();
                Poll::Pending
            }
        }
    }
    fn poll_flush(self: Pin<&mut Self>, _cx: &mut Context<'_>) -> Poll<io::Result<()>> {
        Poll::Ready(Ok(()))
    }
    fn poll_shutdown(self: Pin<&mut Self>, _cx: &mut Context<'_>) -> Poll<io::Result<()>> {
        Poll::Ready(Ok(()))
    }
}

// ------------------------------------------------------------------ plugin under test

#[derive(Default)]
struct Calls {
    /// (kind, params) in invocation order
    invoked: Vec<(String, Value)>,
    /// outstanding gated calls: (index into invoked, completion sender)
    outstanding: Vec<(usize, oneshot::Sender<()>)>,
}

#[derive(Clone, Default)]
pub struct FState(Arc<Mutex<Calls>>);

async fn gated(plugin: Plugin<FState>, kind: &'static str, v: Value) -> Result<Value, anyhow::Error> {
    let rx = {
        let mut c = plugin.state().0.lock().unwrap();
        let idx = c.invoked.len();
        c.invoked.push((kind.to_string(), v.clone()));
        let (tx, rx) = oneshot::channel();
        c.outstanding.push((idx, tx));
        rx
    };
    tracing::info!("handler {} waiting", kind);
    let _ = rx.await;
    tracing::info!("handler {} done", kind);
    if v.get("fail").and_then(|f| f.as_bool()) == Some(true) {
        return Err(anyhow::anyhow!("handler failed on request"));
    }
    Ok(json!({"result": "continue", "kind": kind, "echo": v}))
}

async fn on_hook(plugin: Plugin<FState>, v: Value) -> Result<Value, anyhow::Error> {
    gated(plugin, "hook", v).await
}

async fn on_method(plugin: Plugin<FState>, v: Value) -> Result<Value, anyhow::Error> {
    gated(plugin, "method", v).await
}

async fn on_notification(plugin: Plugin<FState>, v: Value) -> Result<(), anyhow::Error> {
    plugin.state().0.lock().unwrap().invoked.push(("notification".to_string(), v));
    tracing::info!("notification handled");
    Ok(())
}

fn frame(v: &Value, pretty: bool) -> Vec<u8> {
    let s = if pretty { serde_json::to_string_pretty(v).unwrap() } else { v.to_string() };
    assert!(!s.contains("\n\n"));
    let mut b = s.into_bytes();
    b.extend_from_slice(b"\n\n");
    b
}

pub fn handshake() -> Vec<u8> {
    let mut b = frame(&json!({"jsonrpc":"2.0","id":"hs-1","method":"getmanifest","params":{"allow-deprecated-apis":false}}), false);
    b.extend(frame(
        &json!({"jsonrpc":"2.0","id":2,"method":"init","params":{
            "options": {},
            "configuration": {"lightning-dir":"/tmp/sim/regtest","rpc-file":"lightning-rpc","startup":true,"network":"regtest",
                "feature_set":{"init":"02aaa2","node":"8000000002aaa2","channel":"","invoice":"028200"}}
        }}),
        false,
    ));
    b
}

/// The message stream after the handshake for episode `ep` (ids are fresh per episode).
/// Returns (bytes, message boundaries, expected ids of requests, expected call list).
pub struct Stream {
    pub bytes: Vec<u8>,
    pub boundaries: Vec<usize>,
    pub request_ids: Vec<Value>,
    /// (kind, params) in stream order
    pub calls: Vec<(String, Value)>,
    /// byte offsets that are "interesting": around separators and inside multi-byte characters
    pub interesting: Vec<usize>,
}

/// Episode numbers from here on use the burst stream: eight method calls (E11).
pub const BURST: u64 = 1 << 40;
pub const BURST_CALLS: usize = 8;

fn stream_burst(ep: u64) -> Stream {
    let n = ep - BURST;
    let mut bytes = Vec::new();
    let mut boundaries = Vec::new();
    let mut request_ids = Vec::new();
    let mut calls = Vec::new();
    for i in 0..BURST_CALLS as u64 {
        let id = if i % 2 == 0 { json!(1_000_000 + n * 100 + i) } else { json!(format!("burst-{}-{}", n, i)) };
        let p = json!({"text": format!("réponse {} 😀", i), "i": i, "ep": n});
        let m = json!({"jsonrpc":"2.0","id":id,"method":"echo","params":p});
        bytes.extend(frame(&m, i == 3));
        boundaries.push(bytes.len());
        request_ids.push(id);
        calls.push(("method".to_string(), p));
    }
    Stream {
        bytes,
        boundaries,
        request_ids,
        calls,
        interesting: Vec::new(),
    }
}

pub fn stream(ep: u64) -> Stream {
    if ep >= BURST {
        return stream_burst(ep);
    }
    let id1 = json!(17 + ep * 10);
    let id2 = json!(format!("abc-é€-{}", ep));
    let id3 = json!(18 + ep * 10);
    let id4 = json!(format!("err-{}", ep));
    let p5 = json!({"fail": true, "ep": ep});
    let p1 = json!({"onion":{"payload":"00","note":"line1\nline2 é€😀 \\ \" end"},"htlc":{"id":1,"ep":ep}});
    let p2 = json!({"text":"ünïcödé 😀😀","n":[1,2,3],"ep":ep});
    let p3 = json!({"block_added":{"height":800001,"hash":"00ff"},"ep":ep});
    let p4 = json!({"onion":{"payload":"01"},"htlc":{"id":2,"nested":{"a":[{"b":"\n"}]},"ep":ep}});
    let msgs: Vec<(Value, bool)> = vec![
        (json!({"jsonrpc":"2.0","id":id1,"method":"htlc_accepted","params":p1}), false),
        (json!({"jsonrpc":"2.0","id":id2,"method":"echo","params":p2}), false),
        (json!({"jsonrpc":"2.0","method":"block_added","params":p3}), false),
        (json!({"jsonrpc":"2.0","id":id3,"method":"htlc_accepted","params":p4}), true),
        (json!({"jsonrpc":"2.0","id":id4,"method":"echo","params":p5}), false),
    ];
    let mut bytes = Vec::new();
    let mut boundaries = Vec::new();
    for (m, pretty) in &msgs {
        bytes.extend(frame(m, *pretty));
        boundaries.push(bytes.len());
    }
    let mut interesting: Vec<usize> = Vec::new();
    for (i, b) in bytes.iter().enumerate() {
        if *b >= 0x80 || *b == b'\n' || *b == b'\\' {
            for d in 0..=1 {
                if i + d <= bytes.len() {
                    interesting.push(i + d);
                }
            }
        }
    }
    for b in &boundaries {
        for d in [-3i64, -2, -1, 0, 1, 2] {
            let p = *b as i64 + d;
            if p > 0 && (p as usize) < bytes.len() {
                interesting.push(p as usize);
            }
        }
    }
    interesting.sort();
    interesting.dedup();
    Stream {
        bytes,
        boundaries,
        request_ids: vec![id1, id2, id3, id4],
        calls: vec![("hook".into(), p1), ("method".into(), p2), ("notification".into(), p3), ("hook".into(), p4), ("method".into(), p5)],
        interesting,
    }
}

pub struct Instance {
    rt: tokio::runtime::Runtime,
    reader: PipeReader,
    writer: PipeWriter,
    state: FState,
    _plugin: Option<Plugin<FState>>,
    out_pos: usize,
    invoked_pos: usize,
    pub logging: bool,
    /// per step of the last episode: number of runnable tasks at every moment with more than one
    pub points: Vec<Vec<u8>>,
    /// per step of the last episode: number of preemption points passed
    pub syncs: Vec<u16>,
}

impl Instance {
    pub fn new(logging: bool) -> Result<Instance, String> {
        Self::new_with_readahead(logging, &[])
    }

    /// `readahead`: bytes of the first post-handshake message that arrive in the same chunk as `init`.
    pub fn new_with_readahead(logging: bool, readahead: &[u8]) -> Result<Instance, String> {
        sched::take_panics();
        sched::clear_select_queue();
        sched::drop_parked();
        let rt = sched::new_runtime();
        let reader = PipeReader::default();
        let writer = PipeWriter::default();
        let state = FState::default();
        let mut first = handshake();
        first.extend_from_slice(readahead);
        reader.push(&first);
        let (r2, w2, s2) = (reader.clone(), writer.clone(), state.clone());
        let task = {
            let _g = rt.enter();
            tokio::spawn(async move {
                let builder = Builder::new(r2, w2)
                    .hook("htlc_accepted", on_hook)
                    .rpcmethod("echo", "echo the params", on_method)
                    .subscribe("block_added", on_notification)
                    .with_logging(logging);
                match builder.configure().await {
                    Ok(Some(cp)) => cp.start(s2).await.map_err(|e| format!("{:?}", e)),
                    Ok(None) => Err("configure returned None".to_string()),
                    Err(e) => Err(format!("{:?}", e)),
                }
            })
        };
        let plugin = rt.block_on(async {
            sched::quiesce().await;
            task.await
        });
        let plugin = match plugin {
            Ok(Ok(p)) => p,
            Ok(Err(e)) => return Err(format!("handshake failed: {}", e)),
            Err(e) => return Err(format!("handshake task died: {:?} {:?}", e, sched::take_panics())),
        };
        let out_pos = writer.0.lock().unwrap().out.len();
        Ok(Instance {
            rt,
            reader,
            writer,
            state,
            _plugin: Some(plugin),
            out_pos,
            invoked_pos: 0,
            logging,
            points: Vec::new(),
            syncs: Vec::new(),
        })
    }

    fn quiesce(&mut self) {
        // a task suspended at a preemption point continues now, behind whatever became runnable meanwhile
        sched::release_parked();
        self.rt.block_on(sched::quiesce_parkable());
    }
}

#[derive(Clone, Debug)]
pub enum Step {
    Feed(usize, usize),
    /// complete the outstanding call that was the k-th gated call invoked in this episode
    Complete(usize),
    Select(u32),
    /// the node stops / resumes draining the plugin's output pipe
    BlockWriter,
    ReleaseWriter,
    /// complete whatever is outstanding now (calls that could only be dispatched after the pipe was released)
    CompleteAll,
}

#[derive(Clone, Debug)]
pub struct Episode {
    pub ep: u64,
    pub steps: Vec<Step>,
    pub writer_modes: Vec<(u64, WMode)>,
    /// run-queue deviation: during step `.0`, at the `.1`-th moment with several runnable tasks, poll the task at
    /// queue position `.2` first (instead of the oldest)
    pub pick: Option<(usize, u16, u8)>,
    /// preemption: the task reaching preemption point `.1` of step `.0` (about to lock a mutex, send or receive on
    /// a channel) is suspended there until the next step has taken effect
    pub park: Option<(usize, u16)>,
}

impl Episode {
    pub fn describe(&self) -> Value {
        json!({
            "steps": self.steps.iter().map(|s| format!("{:?}", s)).collect::<Vec<_>>(),
            "writer_modes": self.writer_modes.iter().map(|m| format!("{:?}", m)).collect::<Vec<_>>(),
            "run_queue_pick": self.pick.map(|p| format!("step {} moment {} position {}", p.0, p.1, p.2)),
            "preemption": self.park.map(|p| format!("step {} preemption point {}", p.0, p.1)),
        })
    }
}

/// Run one episode on an idle instance and judge it. Returns violations.
pub fn run_episode(inst: &mut Instance, st: &Stream, e: &Episode) -> Vec<Violation> {
    let mut vs: Vec<Violation> = Vec::new();
    {
        let mut w = inst.writer.0.lock().unwrap();
        let base = w.calls;
        w.modes.clear();
        for (n, m) in &e.writer_modes {
            w.modes.insert(base + n, *m);
        }
    }
    let gated_base = inst.invoked_pos;
    inst.points.clear();
    inst.syncs.clear();
    for (si, s) in e.steps.iter().enumerate() {
        let park = e.park.filter(|p| p.0 == si).map(|p| p.1);
        match e.pick {
            Some((i, j, k)) if i == si => sched::begin_step(&[(j, k)], park),
            _ => sched::begin_step(&[], park),
        }
        match s {
            Step::Feed(a, b) => inst.reader.push(&st.bytes[*a..*b]),
            Step::Complete(k) => {
                // the k-th gated call of this episode, if it has been invoked
                let tx = {
                    let mut c = inst.state.0.lock().unwrap();
                    let gated_idx: Vec<usize> = c
                        .invoked
                        .iter()
                        .enumerate()
                        .skip(gated_base)
                        .filter(|(_, x)| x.0 != "notification")
                        .map(|(i, _)| i)
                        .collect();
                    match gated_idx.get(*k) {
                        Some(target) => c.outstanding.iter().position(|o| o.0 == *target).map(|p| c.outstanding.remove(p).1),
                        None => None,
                    }
                };
                match tx {
                    Some(tx) => {
                        let _ = tx.send(());
                    }
                    None => {
                        // The call is not outstanding. If every request of the stream was delivered this is a
                        // bug of the schedule generator (machinery); otherwise the request was lost, which the
                        // oracles below report.
                        let delivered = inst.state.0.lock().unwrap().invoked.len() - gated_base;
                        if delivered >= st.calls.len() {
                            vs.push(Violation {
                                property: "C17",
                                clause: "machinery",
                                shape: "schedule completes a call that is not outstanding".into(),
                                detail: format!("{:?}", e.steps.iter().rev().take(6).collect::<Vec<_>>()),
                            });
                        }
                    }
                }
            }
            Step::Select(i) => sched::queue_select(*i),
            Step::CompleteAll => loop {
                let tx = {
                    let mut c = inst.state.0.lock().unwrap();
                    if c.outstanding.is_empty() {
                        None
                    } else {
                        Some(c.outstanding.remove(0).1)
                    }
                };
                match tx {
                    Some(tx) => {
                        let _ = tx.send(());
                        inst.quiesce();
                    }
                    None => break,
                }
            },
            Step::BlockWriter => inst.writer.0.lock().unwrap().blocked = true,
            Step::ReleaseWriter => {
                let w = {
                    let mut g = inst.writer.0.lock().unwrap();
                    g.blocked = false;
                    g.parked.take()
                };
                if let Some(w) = w {
                    w.wake();
                }
            }
        }
        inst.quiesce();
        let info = sched::end_step();
        let pts = info.picks;
        if e.pick.map(|p| p.0) == Some(si) || e.park.map(|p| p.0) == Some(si) {
            if !info.script_hit {
                vs.push(Violation {
                    property: "C17",
                    clause: "machinery",
                    shape: "run-queue choice does not exist on replay".into(),
                    detail: format!("{:?} {:?} points {:?} syncs {}", e.pick, e.park, pts, info.syncs),
                });
            }
        }
        inst.points.push(pts);
        inst.syncs.push(info.syncs);
    }
    // a task still suspended continues; the completions it was waiting to ask for are granted
    for _ in 0..8 {
        if sched::parked() == 0 {
            break;
        }
        sched::begin_step(&[], None);
        inst.quiesce();
        loop {
            let tx = {
                let mut c = inst.state.0.lock().unwrap();
                if c.outstanding.is_empty() {
                    None
                } else {
                    Some(c.outstanding.remove(0).1)
                }
            };
            match tx {
                Some(tx) => {
                    let _ = tx.send(());
                    inst.quiesce();
                }
                None => break,
            }
        }
        sched::end_step();
    }
    sched::clear_select_queue();
    let panics = sched::take_panics();
    for p in panics {
        vs.push(Violation {
            property: "C17",
            clause: "no-panic",
            shape: "the plugin driver or a handler task panicked".into(),
            detail: p.replace('\n', " | "),
        });
    }
    // --- handlers invoked once per request, in stream order, with the sent params
    let invoked: Vec<(String, Value)> = inst.state.0.lock().unwrap().invoked[inst.invoked_pos..].to_vec();
    inst.invoked_pos += invoked.len();
    let same = if e.pick.is_some() || e.park.is_some() {
        // handlers are tasks of their own: under another run-queue order they may start in another order
        let mut a: Vec<String> = invoked.iter().map(|c| format!("{} {}", c.0, c.1)).collect();
        let mut b: Vec<String> = st.calls.iter().map(|c| format!("{} {}", c.0, c.1)).collect();
        a.sort();
        b.sort();
        a == b
    } else {
        invoked == st.calls
    };
    if !same {
        vs.push(Violation {
            property: "C17",
            clause: "decoded-once-in-order",
            shape: if invoked.len() < st.calls.len() {
                "a request of the stream was not delivered to its handler".into()
            } else if invoked.len() > st.calls.len() {
                "a request was delivered to a handler more than once".into()
            } else {
                "handlers were invoked out of order or with different params".into()
            },
            detail: format!("invoked {:?}", invoked.iter().map(|c| (c.0.clone(), c.1.to_string().chars().take(40).collect::<String>())).collect::<Vec<_>>()),
        });
    }
    // --- output: complete JSON documents each followed by exactly one blank line
    let out: Vec<u8> = {
        let w = inst.writer.0.lock().unwrap();
        w.out[inst.out_pos..].to_vec()
    };
    inst.out_pos += out.len();
    let mut docs: Vec<Value> = Vec::new();
    let mut rest: &[u8] = &out;
    let mut framing_ok = true;
    while !rest.is_empty() {
        match rest.windows(2).position(|w| w == b"\n\n") {
            Some(p) => {
                match serde_json::from_slice::<Value>(&rest[..p]) {
                    Ok(v) => docs.push(v),
                    Err(_) => framing_ok = false,
                }
                rest = &rest[p + 2..];
                if rest.first() == Some(&b'\n') {
                    framing_ok = false;
                }
            }
            None => {
                framing_ok = false;
                break;
            }
        }
    }
    if !framing_ok {
        vs.push(Violation {
            property: "C17",
            clause: "whole-messages",
            shape: "output is not a sequence of complete JSON documents each followed by a blank line".into(),
            detail: String::from_utf8_lossy(&out).chars().take(300).collect(),
        });
    }
    let mut reply_ids: Vec<String> = Vec::new();
    let mut logs = 0;
    for d in &docs {
        if d.get("method").and_then(|m| m.as_str()) == Some("log") {
            logs += 1;
            continue;
        }
        match d.get("id") {
            Some(id) => {
                reply_ids.push(id.to_string());
                // the reply must carry the params of the request with that id
                if let Some(pos) = st.request_ids.iter().position(|r| r == id) {
                    let want = &st.calls.iter().filter(|c| c.0 != "notification").nth(pos).unwrap().1;
                    let failing = want.get("fail").and_then(|f| f.as_bool()) == Some(true);
                    if failing {
                        if d.get("error").is_none() {
                            vs.push(Violation {
                                property: "C17",
                                clause: "reply-carries-request-id",
                                shape: "the request whose handler failed was not answered with an error carrying its id".into(),
                                detail: d.to_string().chars().take(200).collect(),
                            });
                        }
                    } else if d.get("result").and_then(|r| r.get("echo")) != Some(want) {
                        vs.push(Violation {
                            property: "C17",
                            clause: "reply-carries-request-id",
                            shape: "a reply carries the id of a different request than the one it answers".into(),
                            detail: d.to_string().chars().take(200).collect(),
                        });
                    }
                }
            }
            None => vs.push(Violation {
                property: "C17",
                clause: "one-reply-per-id",
                shape: "the plugin wrote a message that is neither a reply nor a log notification".into(),
                detail: d.to_string().chars().take(200).collect(),
            }),
        }
    }
    let mut want_ids: Vec<String> = st.request_ids.iter().map(|v| v.to_string()).collect();
    want_ids.sort();
    reply_ids.sort();
    if reply_ids != want_ids && framing_ok {
        vs.push(Violation {
            property: "C17",
            clause: "one-reply-per-id",
            shape: if reply_ids.len() < want_ids.len() {
                "a request received no reply".into()
            } else if reply_ids.len() > want_ids.len() {
                "more replies than requests".into()
            } else {
                "reply ids differ from request ids".into()
            },
            detail: format!("replies {:?} requests {:?}", reply_ids, want_ids),
        });
    }
    // (only meaningful if the episode is otherwise fine: a driver that died produces no logs either)
    if inst.logging && logs == 0 && vs.is_empty() {
        vs.push(Violation {
            property: "C17",
            clause: "machinery",
            shape: "logging instance produced no log notification (vacuous)".into(),
            detail: String::new(),
        });
    }
    vs
}

/// Chunk feeds for a set of cut points, followed by completions in `order`.
fn episode_cuts(st: &Stream, ep: u64, cuts: &[usize], order: &[usize]) -> Episode {
    let mut steps = Vec::new();
    let mut a = 0;
    for c in cuts {
        if *c > a {
            steps.push(Step::Feed(a, *c));
            a = *c;
        }
    }
    steps.push(Step::Feed(a, st.bytes.len()));
    for k in order {
        steps.push(Step::Complete(*k));
    }
    Episode {
        ep,
        steps,
        writer_modes: Vec::new(),
                pick: None,
                park: None,
    }
}

fn perms(n: usize) -> Vec<Vec<usize>> {
    fn rec(cur: &mut Vec<usize>, used: &mut Vec<bool>, out: &mut Vec<Vec<usize>>) {
        if cur.len() == used.len() {
            out.push(cur.clone());
            return;
        }
        for i in 0..used.len() {
            if !used[i] {
                used[i] = true;
                cur.push(i);
                rec(cur, used, out);
                cur.pop();
                used[i] = false;
            }
        }
    }
    let mut out = Vec::new();
    rec(&mut Vec::new(), &mut vec![false; n], &mut out);
    out
}

/// Every interleaving of message-sized feeds with handler completions (a call can only complete
/// after the chunk carrying its request has been fed).
fn interleavings(st: &Stream, ep: u64) -> Vec<Episode> {
    // gated call k arrives with message index: calls 0,1,3 are gated (2 is the notification)
    let arrival = [0usize, 1, 3, 4];
    let nmsg = st.boundaries.len();
    let mut out = Vec::new();
    // state: next message to feed, set of completed calls
    fn rec(fed: usize, done: u8, steps: &mut Vec<Step>, st: &Stream, arrival: &[usize; 4], nmsg: usize, ep: u64, out: &mut Vec<Episode>) {
        if fed == nmsg && done == 0b1111 {
            out.push(Episode {
                ep,
                steps: steps.clone(),
                writer_modes: Vec::new(),
                pick: None,
                park: None,
            });
            return;
        }
        if fed < nmsg {
            let a = if fed == 0 { 0 } else { st.boundaries[fed - 1] };
            steps.push(Step::Feed(a, st.boundaries[fed]));
            rec(fed + 1, done, steps, st, arrival, nmsg, ep, out);
            steps.pop();
        }
        for k in 0..4 {
            if done & (1 << k) == 0 && arrival[k] < fed {
                steps.push(Step::Complete(k));
                rec(fed, done | (1 << k), steps, st, arrival, nmsg, ep, out);
                steps.pop();
            }
        }
    }
    rec(0, 0, &mut Vec::new(), st, &arrival, nmsg, ep, &mut out);
    out
}

fn run_set(name: &str, episodes: &mut dyn Iterator<Item = Episode>, logging: bool, shared: &mut Option<Instance>, result: &mut JobResult, outcomes: &mut std::collections::HashSet<u64>) {
    if logging && !result.found.is_empty() {
        return;
    }
    let mut n = 0u64;
    for e in episodes {
        let st = stream(e.ep);
        let mut fresh;
        let inst: &mut Instance = if logging {
            shared.as_mut().unwrap()
        } else {
            fresh = match Instance::new(false) {
                Ok(i) => i,
                Err(err) => {
                    result.error = Some(err);
                    return;
                }
            };
            &mut fresh
        };
        let steps = e.steps.len() as u64;
        let vs = run_episode(inst, &st, &e);
        n += 1;
        result.runs += 1;
        result.transitions += steps;
        {
            use std::hash::{Hash, Hasher};
            let mut h = std::collections::hash_map::DefaultHasher::new();
            format!("{:?}{:?}{:?}{:?}", e.steps, e.writer_modes, e.pick, e.park).hash(&mut h);
            outcomes.insert(h.finish());
        }
        let broken = logging && vs.iter().any(|v| v.clause != "machinery");
        for v in vs {
            if v.clause == "machinery" {
                if broken {
                    continue;
                }
                result.error = Some(format!("{}: {} {}", name, v.shape, v.detail));
                return;
            }
            if !result.found.iter().any(|f| f.violation.signature() == v.signature()) {
                result.found.push(FoundAny {
                    violation: v,
                    cost: 0,
                    replay: json!({"engine": "F", "scenario": name, "episode": e.describe(), "logging": logging}),
                });
            }
        }
        if broken {
            // the long-lived instance may be dead now: nothing it does afterwards means anything
            break;
        }
    }
    result.extra.insert(name.to_string(), json!(n));
}

pub fn run(thorough: bool, _threads: usize, name: &'static str) -> JobResult {
    let logging = name.contains("logging");
    let mut result = JobResult {
        name: name.to_string(),
        engine: "F".into(),
        level_completed: 0,
        exhaustive: true,
        ..Default::default()
    };
    sched::own_select();
    let mut shared = if logging {
        if std::env::var("CLN_PLUGIN_LOG").is_err() {
            std::env::set_var("CLN_PLUGIN_LOG", "info");
        }
        match Instance::new(true) {
            Ok(i) => Some(i),
            Err(e) => {
                result.error = Some(e);
                return result;
            }
        }
    } else {
        None
    };
    let mut outcomes = std::collections::HashSet::new();
    let mut ep_counter = 0u64;
    let mut next_ep = move || {
        ep_counter += 1;
        if logging {
            ep_counter
        } else {
            0
        }
    };
    let st0 = stream(0);
    let n = st0.bytes.len();
    let orders = perms(4);
    // episodes whose every single run-queue deviation is explored as well (E10)
    let mut pick_bases: Vec<Episode> = Vec::new();
    // E1: every single cut point x every completion order (after everything was fed)
    {
        let mut eps: Vec<Episode> = Vec::new();
        for c in 1..n {
            for o in &orders {
                let ep = next_ep();
                let st = stream(ep);
                if st.bytes.len() != n {
                    // episode ids changed the length; cuts are positions in this episode's stream
                }
                eps.push(episode_cuts(&st, ep, &[c.min(st.bytes.len() - 1)], o));
            }
        }
        run_set("E1 one cut x 24 completion orders", &mut eps.into_iter(), logging, &mut shared, &mut result, &mut outcomes);
    }
    // E2: every pair of cut points
    if !logging {
        let mut eps: Vec<Episode> = Vec::new();
        let pos: Vec<usize> = if thorough { (1..n).collect() } else { (1..n).collect() };
        for (i, a) in pos.iter().enumerate() {
            for b in pos.iter().skip(i + 1) {
                if thorough {
                    for o in [&orders[0], &orders[23]] {
                        eps.push(episode_cuts(&st0, 0, &[*a, *b], o));
                    }
                } else {
                    eps.push(episode_cuts(&st0, 0, &[*a, *b], &orders[(a + b) % 24]));
                }
            }
        }
        run_set("E2 two cuts", &mut eps.into_iter(), logging, &mut shared, &mut result, &mut outcomes);
    }
    // E3: single bytes
    {
        let mut eps: Vec<Episode> = Vec::new();
        for o in &orders {
            let ep = next_ep();
            let st = stream(ep);
            let cuts: Vec<usize> = (1..st.bytes.len()).collect();
            eps.push(episode_cuts(&st, ep, &cuts, o));
        }
        run_set("E3 single bytes x 24 orders", &mut eps.into_iter(), logging, &mut shared, &mut result, &mut outcomes);
    }
    // E4: every interleaving of message-sized chunks with completions
    {
        let mut eps: Vec<Episode> = Vec::new();
        let proto = interleavings(&st0, 0);
        for p in proto {
            let ep = next_ep();
            let st = stream(ep);
            // rebuild feeds on this episode's boundaries
            let mut steps = Vec::new();
            let mut fed = 0;
            for s in &p.steps {
                match s {
                    Step::Feed(..) => {
                        let a = if fed == 0 { 0 } else { st.boundaries[fed - 1] };
                        steps.push(Step::Feed(a, st.boundaries[fed]));
                        fed += 1;
                    }
                    other => steps.push(other.clone()),
                }
            }
            eps.push(Episode {
                ep,
                steps,
                writer_modes: Vec::new(),
                pick: None,
                park: None,
            });
        }
        if !logging {
            pick_bases.extend(eps.iter().cloned());
        }
        run_set("E4 all interleavings of message feeds and completions", &mut eps.into_iter(), logging, &mut shared, &mut result, &mut outcomes);
    }
    // E5: short / pending writes at every poll_write index (one or two deviations)
    {
        let mut eps: Vec<Episode> = Vec::new();
        let base = interleavings(&st0, 0);
        let picks = [0usize, base.len() / 2, base.len() - 1];
        for pi in picks {
            for w in 0..12u64 {
                for m in [WMode::OneByte, WMode::PendingOnce] {
                    let mut e = base[pi].clone();
                    e.writer_modes = vec![(w, m)];
                    eps.push(e);
                    if thorough {
                        for w2 in (w + 1)..12 {
                            let mut e = base[pi].clone();
                            e.writer_modes = vec![(w, m), (w2, WMode::OneByte)];
                            eps.push(e);
                        }
                    }
                }
            }
        }
        // a writer that only ever takes one byte
        let mut e = base[0].clone();
        e.writer_modes = (0..4000u64).map(|i| (i, WMode::OneByte)).collect();
        eps.push(e);
        run_set("E5 short and pending writes", &mut eps.into_iter(), logging, &mut shared, &mut result, &mut outcomes);
    }
    // E6: the driver's select! start branch
    {
        let mut eps: Vec<Episode> = Vec::new();
        let base = interleavings(&st0, 0);
        for (bi, b) in base.iter().enumerate() {
            if !thorough && bi % 7 != 0 {
                continue;
            }
            for at in 0..b.steps.len() {
                let mut e = b.clone();
                e.steps.insert(at, Step::Select(1));
                eps.push(e);
            }
        }
        run_set("E6 select start branch", &mut eps.into_iter(), logging, &mut shared, &mut result, &mut outcomes);
    }
    // E8: the node stops draining the output at some step and resumes only at the end (or one step later)
    {
        let mut eps: Vec<Episode> = Vec::new();
        let base = interleavings(&st0, 0);
        for (bi, b) in base.iter().enumerate() {
            if !thorough && bi % 3 != 0 {
                continue;
            }
            for at in 0..b.steps.len() {
                let ep = next_ep();
                let st = stream(ep);
                // rebuild on this episode's boundaries
                let mut steps = Vec::new();
                let mut fed = 0;
                for (i, s) in b.steps.iter().enumerate() {
                    if i == at {
                        steps.push(Step::BlockWriter);
                    }
                    match s {
                        Step::Feed(..) => {
                            let a = if fed == 0 { 0 } else { st.boundaries[fed - 1] };
                            steps.push(Step::Feed(a, st.boundaries[fed]));
                            fed += 1;
                        }
                        other => steps.push(other.clone()),
                    }
                }
                steps.push(Step::ReleaseWriter);
                steps.push(Step::CompleteAll);
                eps.push(Episode {
                    ep,
                    steps,
                    writer_modes: Vec::new(),
                pick: None,
                park: None,
                });
            }
        }
        if !logging {
            pick_bases.extend(eps.iter().cloned());
        }
        run_set("E8 output pipe blocked from some step until the end", &mut eps.into_iter(), logging, &mut shared, &mut result, &mut outcomes);
    }
    // E11: a burst of eight method calls whose handlers all finish while the node is not draining the output pipe:
    // more replies queue behind the blocked writer than the plugin's reply channel holds (a reply may wait, it may
    // not be lost); the writer is blocked after j = 0..3 completions, completions in three orders
    {
        let mut eps: Vec<Episode> = Vec::new();
        let n = BURST_CALLS;
        let orders: Vec<Vec<usize>> = vec![(0..n).collect(), (0..n).rev().collect(), (0..n).map(|i| (i * 3) % n).collect()];
        for order in &orders {
            for block_after in 0..4usize {
                let ep = BURST + next_ep();
                let st = stream(ep);
                let mut steps = Vec::new();
                for i in 0..n {
                    let a = if i == 0 { 0 } else { st.boundaries[i - 1] };
                    steps.push(Step::Feed(a, st.boundaries[i]));
                }
                for (j, k) in order.iter().enumerate() {
                    if j == block_after {
                        steps.push(Step::BlockWriter);
                    }
                    steps.push(Step::Complete(*k));
                }
                steps.push(Step::ReleaseWriter);
                steps.push(Step::CompleteAll);
                eps.push(Episode {
                    ep,
                    steps,
                    writer_modes: Vec::new(),
                    pick: None,
                    park: None,
                });
            }
        }
        run_set("E11 eight replies queue behind a blocked output pipe", &mut eps.into_iter(), logging, &mut shared, &mut result, &mut outcomes);
    }
    // E10: the plugin runs on a multi-threaded runtime, so whenever several of its tasks (driver, handlers, writers)
    // are runnable any of them may go first: every single departure from first-in-first-out, at every such moment
    // of every E4 / E8 episode
    if !logging {
        let mut variants: Vec<Episode> = Vec::new();
        let mut moments = 0u64;
        let mut preemption_points = 0u64;
        for b in &pick_bases {
            let mut inst = match Instance::new(false) {
                Ok(i) => i,
                Err(e) => {
                    result.error = Some(e);
                    return result;
                }
            };
            let _ = run_episode(&mut inst, &st0, b);
            for (si, pts) in inst.points.iter().enumerate() {
                for (j, nrun) in pts.iter().enumerate() {
                    moments += 1;
                    for k in 1..*nrun {
                        let mut v = b.clone();
                        v.pick = Some((si, j as u16, k));
                        variants.push(v);
                    }
                }
            }
            for (si, n) in inst.syncs.iter().enumerate() {
                for p in 0..*n {
                    preemption_points += 1;
                    let mut v = b.clone();
                    v.park = Some((si, p));
                    variants.push(v);
                }
            }
        }
        result.extra.insert("E10 moments with several runnable tasks".into(), json!(moments));
        result.extra.insert("E10 preemption points".into(), json!(preemption_points));
        result.extra.insert("run_queue_pick_points".into(), json!(moments));
        result.extra.insert("preemption_points".into(), json!(preemption_points));
        result.extra.insert("run_queue_alternatives".into(), json!(variants.iter().filter(|v| v.pick.is_some()).count()));
        result.extra.insert("preemption_alternatives".into(), json!(variants.iter().filter(|v| v.park.is_some()).count()));
        run_set("E10 every single run-queue deviation and preemption in E4 and E8 episodes", &mut variants.into_iter(), logging, &mut shared, &mut result, &mut outcomes);
    }
    // E9: the chunk that carries the end of `init` also carries the first k bytes of the next message(s)
    if !logging {
        let mut n9 = 0u64;
        let mut ks: Vec<usize> = vec![1, 2, st0.boundaries[0] - 2, st0.boundaries[0] - 1, st0.boundaries[0], st0.boundaries[0] + 1, st0.boundaries[1], st0.bytes.len() - 1, st0.bytes.len()];
        if thorough {
            ks = (1..=st0.bytes.len()).collect();
        }
        for k in ks {
            for o in [&orders[0], &orders[orders.len() - 1]] {
                let mut inst = match Instance::new_with_readahead(false, &st0.bytes[..k]) {
                    Ok(i) => i,
                    Err(e) => {
                        result.error = Some(e);
                        return result;
                    }
                };
                let mut steps = vec![Step::Feed(k, st0.bytes.len())];
                for c in o.iter() {
                    steps.push(Step::Complete(*c));
                }
                steps.push(Step::CompleteAll);
                let e = Episode { ep: 0, steps, writer_modes: Vec::new(), pick: None, park: None };
                let vs = run_episode(&mut inst, &st0, &e);
                n9 += 1;
                result.runs += 1;
                result.transitions += e.steps.len() as u64;
                outcomes.insert(0x9000_0000 + (k as u64) * 100 + o[0] as u64);
                for v in vs {
                    if v.clause == "machinery" {
                        continue;
                    }
                    if !result.found.iter().any(|f| f.violation.signature() == v.signature()) {
                        result.found.push(FoundAny {
                            violation: v,
                            cost: 0,
                            replay: json!({"engine": "F", "scenario": name, "episode": e.describe(), "readahead": k}),
                        });
                    }
                }
            }
        }
        result.extra.insert("E9 bytes read ahead past init".into(), json!(n9));
    }
    // E7: three cuts among the interesting offsets
    if !logging && thorough {
        let mut eps: Vec<Episode> = Vec::new();
        let p = &st0.interesting;
        for i in 0..p.len() {
            for j in (i + 1)..p.len() {
                for k in (j + 1)..p.len() {
                    eps.push(episode_cuts(&st0, 0, &[p[i], p[j], p[k]], &orders[(i + j + k) % 24]));
                }
            }
        }
        run_set("E7 three cuts at interesting offsets", &mut eps.into_iter(), logging, &mut shared, &mut result, &mut outcomes);
    }
    result.states = outcomes.len() as u64;
    result.distinct_outcomes = outcomes.len() as u64;
    result.rule = Some(format!(
        "engine F{}: real cln_plugin Builder/driver/codec over in-memory pipes; node stream = handshake + 5 messages ({} bytes: two hook calls, two method calls with string ids one of whose handler returns an error, one notification; multi-byte characters, escaped and literal single newlines, one pretty-printed body); enumerated (per-set episode counts are in `extra`; with logging on the pair/triple cut sets are skipped): every single cut point x all 24 completion orders of the four gated calls (one of which fails), every pair of cut points, the all-single-bytes partition, every interleaving of message-sized feeds with handler completions, short/pending writes at each of the first 12 poll_write calls, select! start-branch deviations at every step, the node not draining the output pipe from any step until the end, the first k bytes after `init` arriving in the same chunk as `init`, every single run-queue deviation (a younger runnable task polled before the oldest) and every single preemption (a task suspended right before a mutex lock / channel send / channel receive until the next step has taken effect) at every such moment of every E4/E8 episode{}; oracle: handlers invoked once per request in order (as a multiset under a run-queue deviation) with the sent params, output = complete JSON documents each followed by exactly one blank line, reply ids = request ids, replies echo their own request, nothing for notifications",
        if logging { " (logging on, one long-lived instance, episodes from the idle state)" } else { "" },
        n,
        if thorough { ", every triple of cut points among the interesting offsets (separators, multi-byte characters, escapes)" } else { "" }
    ));
    result.samples = vec![json!({"stream_utf8": String::from_utf8_lossy(&st0.bytes).chars().take(400).collect::<String>()}), json!({"episode": episode_cuts(&st0, 0, &[st0.boundaries[0] - 1, st0.boundaries[0] + 3], &orders[7]).describe()})];
    result
}


/// The logging-on variant runs in a child process (one long-lived instance, see the module comment).
pub fn run_logging_child(thorough: bool, _threads: usize, name: &'static str) -> JobResult {
    let exe = match std::env::current_exe() {
        Ok(e) => e,
        Err(e) => {
            return JobResult {
                name: name.to_string(),
                engine: "F".into(),
                error: Some(format!("current_exe: {}", e)),
                ..Default::default()
            }
        }
    };
    let out = std::process::Command::new(exe).args(["__flog", if thorough { "thorough" } else { "quick" }]).env("CLN_PLUGIN_LOG", "info").output();
    match out {
        Ok(o) if o.status.success() => match serde_json::from_slice::<Value>(&o.stdout) {
            Ok(v) => crate::result_from_json(&v, ""),
            Err(e) => JobResult {
                name: name.to_string(),
                engine: "F".into(),
                error: Some(format!("bad child output: {} :: {}", e, String::from_utf8_lossy(&o.stdout).chars().take(300).collect::<String>())),
                ..Default::default()
            },
        },
        Ok(o) => JobResult {
            name: name.to_string(),
            engine: "F".into(),
            error: Some(format!("child failed: {} {}", o.status, String::from_utf8_lossy(&o.stderr).chars().take(600).collect::<String>())),
            ..Default::default()
        },
        Err(e) => JobResult {
            name: name.to_string(),
            engine: "F".into(),
            error: Some(format!("spawn: {}", e)),
            ..Default::default()
        },
    }
}
