//! Controlled scheduler: a paused current-thread tokio runtime in which plugin
//! tasks run only until every one of them is blocked on something the
//! environment owns (`Quiesce`), or exactly one task at a time (`StepOne`).
use std::{
    cell::{Cell, RefCell},
    future::Future,
    pin::Pin,
    task::{Context, Poll, Waker},
};

thread_local! {
    /// set while the main thread itself runs subject code under catch_unwind
    pub static QUIET_MAIN: Cell<bool> = const { Cell::new(false) };
    static PARKS: Cell<u64> = const { Cell::new(0) };
    static PARK_WAKER: RefCell<Option<Waker>> = const { RefCell::new(None) };
    static PANICS: RefCell<Vec<String>> = const { RefCell::new(Vec::new()) };
    static SELECT_QUEUE: RefCell<std::collections::VecDeque<u32>> = const { RefCell::new(std::collections::VecDeque::new()) };
    static SELECT_LOG: RefCell<Vec<u32>> = const { RefCell::new(Vec::new()) };
    /// run-queue picks: (point index within the current step, queue position to poll)
    static PICK_SCRIPT: RefCell<Vec<(u16, u8)>> = const { RefCell::new(Vec::new()) };
    /// number of runnable tasks at every pick point with at least two of them, since the last reset
    static PICK_LOG: RefCell<Vec<u8>> = const { RefCell::new(Vec::new()) };
    static PICK_HITS: Cell<u32> = const { Cell::new(0) };
    /// preemption points (a task about to lock a mutex / send / receive on a channel) inside the current step
    static SYNC_ACTIVE: Cell<bool> = const { Cell::new(false) };
    static IN_PARKABLE: Cell<bool> = const { Cell::new(false) };
    /// the task being polled has not passed a preemption point yet (see `set_fresh`)
    static FRESH: Cell<bool> = const { Cell::new(false) };
    static SYNC_COUNT: Cell<u16> = const { Cell::new(0) };
    static PARK_AT: Cell<Option<u16>> = const { Cell::new(None) };
    static PARK_HIT: Cell<bool> = const { Cell::new(false) };
    static PARKED: RefCell<Vec<Waker>> = const { RefCell::new(Vec::new()) };
}

/// What the scheduler saw during one step.
#[derive(Clone, Debug, Default)]
pub struct StepInfo {
    /// number of runnable tasks at every moment with at least two of them
    pub picks: Vec<u8>,
    /// number of preemption points passed
    pub syncs: u16,
    /// every scripted deviation was reached
    pub script_hit: bool,
}

pub fn new_runtime() -> tokio::runtime::Runtime {
    tokio::runtime::Builder::new_current_thread()
        .enable_time()
        .start_paused(true)
        .event_interval(1)
        .on_thread_park(|| {
            PARKS.with(|p| p.set(p.get() + 1));
            PARK_WAKER.with(|w| {
                if let Some(w) = w.borrow_mut().take() {
                    w.wake();
                }
            });
        })
        .build()
        .expect("runtime")
}

/// Resolves once the runtime's run queue is empty (the thread is about to park).
pub struct Quiesce {
    start: Option<u64>,
    parkable: bool,
}

pub fn quiesce() -> Quiesce {
    Quiesce { start: None, parkable: false }
}

/// Like `quiesce`, and the tasks that run meanwhile pass preemption points at which the step's script may
/// suspend them (only the plugin's own tasks run inside it: the main future is this one).
pub fn quiesce_parkable() -> Quiesce {
    Quiesce { start: None, parkable: true }
}

impl Drop for Quiesce {
    fn drop(&mut self) {
        if self.parkable {
            IN_PARKABLE.with(|p| p.set(false));
        }
    }
}

impl Future for Quiesce {
    type Output = ();
    fn poll(mut self: Pin<&mut Self>, cx: &mut Context<'_>) -> Poll<()> {
        let parks = PARKS.with(|p| p.get());
        match self.start {
            None => {
                self.start = Some(parks);
                if self.parkable {
                    IN_PARKABLE.with(|p| p.set(true));
                }
            }
            Some(s) if parks > s => {
                if self.parkable {
                    IN_PARKABLE.with(|p| p.set(false));
                }
                return Poll::Ready(());
            }
            _ => {}
        }
        PARK_WAKER.with(|w| *w.borrow_mut() = Some(cx.waker().clone()));
        Poll::Pending
    }
}

/// Lets the runtime poll exactly one queued task (event_interval = 1).
pub struct StepOne(bool);

pub fn step_one() -> StepOne {
    StepOne(false)
}

impl Future for StepOne {
    type Output = ();
    fn poll(mut self: Pin<&mut Self>, cx: &mut Context<'_>) -> Poll<()> {
        if self.0 {
            Poll::Ready(())
        } else {
            self.0 = true;
            cx.waker().wake_by_ref();
            Poll::Pending
        }
    }
}

/// Install the process-wide panic hook (records into a thread-local, silent).
pub fn install_panic_hook() {
    std::panic::set_hook(Box::new(|info| {
        let msg = format!("{}", info);
        if std::thread::current().name() == Some("main") && !QUIET_MAIN.with(|q| q.get()) {
            eprintln!("[main thread] {}", msg);
        }
        PANICS.with(|p| p.borrow_mut().push(msg));
    }));
}

pub fn take_panics() -> Vec<String> {
    PANICS.with(|p| std::mem::take(&mut *p.borrow_mut()))
}

fn select_hook(n: u32) -> u32 {
    let v = SELECT_QUEUE.with(|q| q.borrow_mut().pop_front()).unwrap_or(0) % n.max(1);
    SELECT_LOG.with(|l| l.borrow_mut().push(n));
    v
}

fn pick_hook(n: u32) -> u32 {
    let i = PICK_LOG.with(|l| {
        let mut l = l.borrow_mut();
        l.push(n.min(255) as u8);
        l.len() - 1
    });
    match PICK_SCRIPT.with(|s| s.borrow().iter().find(|(j, _)| *j as usize == i).map(|(_, k)| *k as u32)) {
        Some(k) if k < n => {
            PICK_HITS.with(|h| h.set(h.get() + 1));
            k
        }
        _ => 0,
    }
}

fn sync_hook(w: &Waker) -> bool {
    if FRESH.with(|f| f.replace(false)) {
        return false;
    }
    if !SYNC_ACTIVE.with(|a| a.get()) || !IN_PARKABLE.with(|p| p.get()) {
        return false;
    }
    let i = SYNC_COUNT.with(|c| {
        let i = c.get();
        c.set(i.saturating_add(1));
        i
    });
    if PARK_AT.with(|p| p.get()) == Some(i) {
        PARK_HIT.with(|h| h.set(true));
        PARKED.with(|p| p.borrow_mut().push(w.clone()));
        true
    } else {
        false
    }
}

/// Start a step: the oldest runnable task is polled first (FIFO) except at the scripted pick points; the task
/// reaching preemption point `park` is suspended there until `release_parked`.
pub fn begin_step(script: &[(u16, u8)], park: Option<u16>) {
    PICK_SCRIPT.with(|s| *s.borrow_mut() = script.to_vec());
    PICK_LOG.with(|l| l.borrow_mut().clear());
    PICK_HITS.with(|h| h.set(0));
    SYNC_ACTIVE.with(|a| a.set(true));
    SYNC_COUNT.with(|c| c.set(0));
    PARK_AT.with(|p| p.set(park));
    PARK_HIT.with(|h| h.set(false));
}

pub fn end_step() -> StepInfo {
    let scripted = PICK_SCRIPT.with(|s| std::mem::take(&mut *s.borrow_mut())).len() as u32;
    let park = PARK_AT.with(|p| p.take());
    SYNC_ACTIVE.with(|a| a.set(false));
    StepInfo {
        picks: PICK_LOG.with(|l| std::mem::take(&mut *l.borrow_mut())),
        syncs: SYNC_COUNT.with(|c| c.get()),
        script_hit: PICK_HITS.with(|h| h.get()) == scripted && (park.is_none() || PARK_HIT.with(|h| h.get())),
    }
}

/// A task that has not touched shared state yet: suspending it before its first synchronisation operation is
/// the same as starting it later (which the environment's own choices already cover), so that point is skipped.
pub fn set_fresh(fresh: bool) -> bool {
    FRESH.with(|f| f.replace(fresh))
}

/// Suspended tasks continue (they are queued behind whatever became runnable before this call).
pub fn release_parked() -> usize {
    let ws = PARKED.with(|p| std::mem::take(&mut *p.borrow_mut()));
    let n = ws.len();
    for w in ws {
        w.wake();
    }
    n
}

pub fn parked() -> usize {
    PARKED.with(|p| p.borrow().len())
}

/// The runtime the suspended tasks lived in is gone.
pub fn drop_parked() {
    PARKED.with(|p| p.borrow_mut().clear());
    FRESH.with(|f| f.set(false));
}

/// Own the `select!` start branch and the run-queue order on this thread: 0 unless a choice was queued.
pub fn own_select() {
    tokio::macros::support::verif_set_pick_hook(Some(pick_hook));
    tokio::macros::support::verif_set_sync_hook(Some(sync_hook));
    begin_step(&[], None);
    end_step();
    drop_parked();
    tokio::macros::support::verif_set_select_hook(Some(select_hook));
    SELECT_QUEUE.with(|q| q.borrow_mut().clear());
    SELECT_LOG.with(|l| l.borrow_mut().clear());
}

pub fn queue_select(start: u32) {
    SELECT_QUEUE.with(|q| q.borrow_mut().push_back(start));
}

pub fn clear_select_queue() {
    SELECT_QUEUE.with(|q| q.borrow_mut().clear());
}

/// Number of `select!` polls since the last call (each entry = branch count).
pub fn take_select_log() -> Vec<u32> {
    SELECT_LOG.with(|l| std::mem::take(&mut *l.borrow_mut()))
}
