//! Controlled scheduler: a paused current-thread tokio runtime in which plugin
//! tasks run only until every one of them is blocked on something the
//! environment owns (`Quiesce`), or exactly one task at a time (`StepOne`).
use std::{
    cell::{Cell, RefCell},
    future::Future,
    pin::Pin,
    task::{Context, Poll, Waker},
};

thread_local! {
    /// set while the main thread itself runs subject code under catch_unwind
    pub static QUIET_MAIN: Cell<bool> = const { Cell::new(false) };
    static PARKS: Cell<u64> = const { Cell::new(0) };
    static PARK_WAKER: RefCell<Option<Waker>> = const { RefCell::new(None) };
    static PANICS: RefCell<Vec<String>> = const { RefCell::new(Vec::new()) };
    static SELECT_QUEUE: RefCell<std::collections::VecDeque<u32>> = const { RefCell::new(std::collections::VecDeque::new()) };
    static SELECT_LOG: RefCell<Vec<u32>> = const { RefCell::new(Vec::new()) };
}

pub fn new_runtime() -> tokio::runtime::Runtime {
    tokio::runtime::Builder::new_current_thread()
        .enable_time()
        .start_paused(true)
        .event_interval(1)
        .on_thread_park(|| {
            PARKS.with(|p| p.set(p.get() + 1));
            PARK_WAKER.with(|w| {
                if let Some(w) = w.borrow_mut().take() {
                    w.wake();
                }
            });
        })
        .build()
        .expect("runtime")
}

/// Resolves once the runtime's run queue is empty (the thread is about to park).
pub struct Quiesce {
    start: Option<u64>,
}

pub fn quiesce() -> Quiesce {
    Quiesce { start: None }
}

impl Future for Quiesce {
    type Output = ();
    fn poll(mut self: Pin<&mut Self>, cx: &mut Context<'_>) -> Poll<()> {
        let parks = PARKS.with(|p| p.get());
        match self.start {
            None => self.start = Some(parks),
            Some(s) if parks > s => return Poll::Ready(()),
            _ => {}
        }
        PARK_WAKER.with(|w| *w.borrow_mut() = Some(cx.waker().clone()));
        Poll::Pending
    }
}

/// Lets the runtime poll exactly one queued task (event_interval = 1).
pub struct StepOne(bool);

pub fn step_one() -> StepOne {
    StepOne(false)
}

impl Future for StepOne {
    type Output = ();
    fn poll(mut self: Pin<&mut Self>, cx: &mut Context<'_>) -> Poll<()> {
        if self.0 {
            Poll::Ready(())
        } else {
            self.0 = true;
            cx.waker().wake_by_ref();
            Poll::Pending
        }
    }
}

/// Install the process-wide panic hook (records into a thread-local, silent).
pub fn install_panic_hook() {
    std::panic::set_hook(Box::new(|info| {
        let msg = format!("{}", info);
        if std::thread::current().name() == Some("main") && !QUIET_MAIN.with(|q| q.get()) {
            eprintln!("[main thread] {}", msg);
        }
        PANICS.with(|p| p.borrow_mut().push(msg));
    }));
}

pub fn take_panics() -> Vec<String> {
    PANICS.with(|p| std::mem::take(&mut *p.borrow_mut()))
}

fn select_hook(n: u32) -> u32 {
    let v = SELECT_QUEUE.with(|q| q.borrow_mut().pop_front()).unwrap_or(0) % n.max(1);
    SELECT_LOG.with(|l| l.borrow_mut().push(n));
    v
}

/// Own the `select!` start branch on this thread: 0 unless a choice was queued.
pub fn own_select() {
    tokio::macros::support::verif_set_select_hook(Some(select_hook));
    SELECT_QUEUE.with(|q| q.borrow_mut().clear());
    SELECT_LOG.with(|l| l.borrow_mut().clear());
}

pub fn queue_select(start: u32) {
    SELECT_QUEUE.with(|q| q.borrow_mut().push_back(start));
}

pub fn clear_select_queue() {
    SELECT_QUEUE.with(|q| q.borrow_mut().clear());
}

/// Number of `select!` polls since the last call (each entry = branch count).
pub fn take_select_log() -> Vec<u32> {
    SELECT_LOG.with(|l| std::mem::take(&mut *l.borrow_mut()))
}
