//! Engine P: the real `PayPaymentProvider<SimNode>` alone. All interleavings of
//! part resolutions with the wrapper's list / wait RPC evaluations, every pay
//! ending contract A1 allows. Serves C15 (wait_payment) and C16 (pay).
use std::{hash::Hash, sync::Arc, time::Duration};

use tokio::task::JoinHandle;

use crate::{
    common::{self, H128},
    explore::{Choice, Model, Violation},
    payment_provider::{PayPaymentProvider, PaymentProvider, PaymentRequest},
    sched,
    sim::{Method, PartStatus, PayOutcome, Sim, SimErr, SimNode, Part},
};

#[derive(Clone, Debug, PartialEq, Eq)]
pub enum Mode {
    Wait,
    Pay { xpay: bool },
}

#[derive(Clone, Debug)]
pub struct PCfg {
    pub name: String,
    pub mode: Mode,
    /// parts existing before the call (from an earlier, ended command)
    pub initial: Vec<PartStatus>,
    /// max parts a running pay command may create
    pub max_new_parts: u32,
    pub fail_codes: Vec<i32>,
    /// allow one injected transport fault on a read RPC (cost 1)
    pub faults: bool,
    /// many parts: only the canonical order (answers oldest first, parts resolve in index order), each part
    /// either completing or failing — keeps 5-6 part configurations small
    pub sequential: bool,
}

#[derive(Debug, Clone)]
enum Ev {
    Answer(u64),
    Resolve(usize, PartStatus),
    Spawn(usize),
    End(usize, PayOutcome),
    Fault(u64),
    Advance(u64),
}

pub struct P {
    cfg: PCfg,
    rt: tokio::runtime::Runtime,
    sim: SimNode,
    hash_hex: String,
    preimage_hex: String,
    task: Option<JoinHandle<Result<Option<Vec<u8>>, String>>>,
    result: Option<Result<Option<Vec<u8>>, String>>,
    view: H128,
    trace: Vec<String>,
    violations: Vec<Violation>,
    events: Vec<Ev>,
    faults_injected: u32,
    part_failure_seen_while_pending: bool,
    advances: u32,
    err: Option<String>,
}

impl P {
    fn harvest(&mut self) {
        if self.result.is_some() {
            return;
        }
        let finished = self.task.as_ref().map(|t| t.is_finished()).unwrap_or(false);
        if !finished {
            return;
        }
        let t = self.task.take().unwrap();
        let r = self.rt.block_on(t);
        let res = match r {
            Ok(v) => v,
            Err(e) => {
                let p = sched::take_panics();
                self.violations.push(Violation {
                    property: self.prop(),
                    clause: "no-panic",
                    shape: "provider task panicked".into(),
                    detail: format!("{} {:?}", if e.is_panic() { "panicked" } else { "cancelled" }, p),
                });
                Err("panic".into())
            }
        };
        self.trace.push(format!("RETURN {:?}", res.as_ref().map(|o| o.as_ref().map(hex::encode))));
        self.check_return(&res);
        self.result = Some(res);
    }

    fn prop(&self) -> &'static str {
        match self.cfg.mode {
            Mode::Wait => "C15",
            Mode::Pay { .. } => "C16",
        }
    }

    fn check_return(&mut self, res: &Result<Option<Vec<u8>>, String>) {
        let (pending, complete): (bool, bool) = self.sim.with(|s| (s.any_pending(&self.hash_hex), s.any_complete(&self.hash_hex)));
        let parts_desc = self.sim.with(|s| {
            s.parts
                .iter()
                .map(|p| format!("g{}.p{}={:?}", p.groupid, p.partid, p.status))
                .collect::<Vec<_>>()
                .join(",")
        });
        let prop = self.prop();
        match res {
            Ok(Some(p)) => {
                let ok = complete && hex::encode(p) == self.preimage_hex;
                if !ok {
                    self.violations.push(Violation {
                        property: prop,
                        clause: "success-needs-complete-part",
                        shape: format!("returned a preimage while no part is complete (or a wrong preimage)"),
                        detail: format!("returned {} parts [{}]", hex::encode(p), parts_desc),
                    });
                }
            }
            Ok(None) => {
                // Wait: Ok(None) = "no payment". Pay maps None to Err, see below.
                if pending || complete {
                    self.violations.push(Violation {
                        property: prop,
                        clause: "none-only-if-nothing-live",
                        shape: format!("reported no payment while a part is {}", if complete { "complete" } else { "pending" }),
                        detail: format!("parts [{}]", parts_desc),
                    });
                }
            }
            Err(e) => {
                match self.cfg.mode {
                    Mode::Pay { .. } => {
                        if pending || complete {
                            // An injected transport fault is a different matter: the wrapper cannot know; recorded separately.
                            let shape = if self.faults_injected > 0 {
                                format!("pay returned failure after a read fault while a part is {}", if complete { "complete" } else { "pending" })
                            } else {
                                format!("pay returned failure while a part is {}", if complete { "complete" } else { "pending" })
                            };
                            self.violations.push(Violation {
                                property: prop,
                                clause: "failure-only-when-final",
                                shape,
                                detail: format!("error {:?}; parts [{}]", e, parts_desc),
                            });
                        }
                    }
                    Mode::Wait => {
                        if self.faults_injected == 0 {
                            self.violations.push(Violation {
                                property: prop,
                                clause: "part-failure-does-not-abort",
                                shape: format!("wait aborted with an error without any RPC fault{}", if pending { " while a part is pending" } else { "" }),
                                detail: format!("error {:?}; parts [{}]", e, parts_desc),
                            });
                        }
                    }
                }
            }
        }
    }

    fn compute_events(&mut self) -> Vec<(Ev, Choice)> {
        let mut out = Vec::new();
        if self.result.is_some() {
            return out;
        }
        let cfg = self.cfg.clone();
        self.sim.with(|s| {
            // 1. answer pending RPCs, oldest first
            for p in s.pending.iter() {
                if cfg.sequential && !out.is_empty() {
                    break;
                }
                if s.answerable(p) {
                    out.push((
                        Ev::Answer(p.id),
                        Choice {
                            label: format!("Answer({})", p.label),
                            cost: 0,
                        },
                    ));
                }
            }
            // 2. pay command progress
            for c in s.pays.iter().filter(|c| c.running) {
                if c.reject.is_none() && c.parts_created < cfg.max_new_parts {
                    out.push((
                        Ev::Spawn(c.id),
                        Choice {
                            label: format!("PaySpawnPart({})", s.cmd_label(c.id)),
                            cost: 0,
                        },
                    ));
                }
                for o in s.allowed_outcomes(c.id) {
                    out.push((
                        Ev::End(c.id, o.clone()),
                        Choice {
                            label: format!("PayEnd({},{})", s.cmd_label(c.id), o.label()),
                            cost: 0,
                        },
                    ));
                }
            }
            // 3. part resolutions
            let mut first_pending = true;
            for (i, part) in s.parts.iter().enumerate() {
                if part.status == PartStatus::Pending {
                    if cfg.sequential && !first_pending {
                        break;
                    }
                    first_pending = false;
                    out.push((
                        Ev::Resolve(i, PartStatus::Complete),
                        Choice {
                            label: format!("Part(g{}.p{},Complete)", part.groupid, part.partid),
                            cost: 0,
                        },
                    ));
                    for code in &cfg.fail_codes {
                        out.push((
                            Ev::Resolve(i, PartStatus::Failed(*code)),
                            Choice {
                                label: format!("Part(g{}.p{},Fail{})", part.groupid, part.partid, code),
                                cost: 0,
                            },
                        ));
                    }
                }
            }
            // 4. faults
            if cfg.faults {
                for p in s.pending.iter() {
                    if p.method != Method::Pay {
                        out.push((
                            Ev::Fault(p.id),
                            Choice {
                                label: format!("Fault({},transport)", p.label),
                                cost: 1,
                            },
                        ));
                    }
                }
            }
        });
        // after an injected fault the wrapper may be sleeping before a retry: let (virtual) time pass
        if out.is_empty() && self.faults_injected > 0 && self.advances < 4 {
            out.push((
                Ev::Advance(1000),
                Choice {
                    label: "Advance(1000ms)".into(),
                    cost: 0,
                },
            ));
        }
        out
    }

    fn quiesce(&mut self) {
        self.rt.block_on(sched::quiesce());
        let reqs = self.sim.with(|s| s.take_new_requests());
        for r in reqs {
            self.view.add(&("req", &r.label, r.params.to_string()));
            self.trace.push(format!("  plugin -> {} {}", r.label, r.params));
        }
        self.harvest();
    }
}

impl Model for P {
    type Cfg = PCfg;

    fn new(cfg: &PCfg) -> Self {
        crate::clock::enable(crate::clock::BASE_SECS * 1_000_000_000);
        sched::take_panics();
        sched::own_select();
        let rt = sched::new_runtime();
        let pre = common::preimage(1);
        let hash = common::hash_of(&pre);
        let hash_hex = common::hash_hex(&pre);
        let mut sim = Sim::new(common::local_pubkey().to_string());
        sim.preimages.insert(hash_hex.clone(), hex::encode(pre));
        for (i, st) in cfg.initial.iter().enumerate() {
            sim.parts.push(Part {
                hash: hash_hex.clone(),
                groupid: 1,
                partid: i as u64 + 1,
                status: *st,
                cmd: None,
            });
        }
        let sim = SimNode::new(sim);
        let xpay = matches!(cfg.mode, Mode::Pay { xpay: true });
        let provider = Arc::new(PayPaymentProvider::new(Arc::new(sim.clone()), Duration::from_secs(60), xpay));
        let mode = cfg.mode.clone();
        let bolt11 = common::build_invoice(&common::InvoiceSpec::fixed(1, 1_000_000));
        let task = {
            let _g = rt.enter();
            tokio::spawn(async move {
                match mode {
                    Mode::Wait => provider.wait_payment(hash).await.map_err(|e| format!("{:?}", e)),
                    Mode::Pay { .. } => provider
                        .pay(PaymentRequest {
                            bolt11,
                            payment_hash: hash,
                            amount_msat: None,
                            max_fee_msat: 5000,
                            max_cltv_delta: 974,
                        })
                        .await
                        .map(Some)
                        .map_err(|e| format!("{:?}", e)),
                }
            })
        };
        let mut p = P {
            cfg: cfg.clone(),
            rt,
            sim,
            hash_hex,
            preimage_hex: hex::encode(pre),
            task: Some(task),
            result: None,
            view: H128::new(),
            trace: vec![format!("scenario {} initial parts {:?}", cfg.name, cfg.initial)],
            violations: Vec::new(),
            events: Vec::new(),
            faults_injected: 0,
            part_failure_seen_while_pending: false,
            advances: 0,
            err: None,
        };
        p.quiesce();
        p
    }

    fn enabled(&mut self) -> Vec<Choice> {
        let evs = self.compute_events();
        self.events = evs.iter().map(|e| e.0.clone()).collect();
        evs.into_iter().map(|e| e.1).collect()
    }

    fn apply(&mut self, idx: usize) {
        let ev = self.events[idx].clone();
        self.trace.push(format!("{:?}", ev));
        match &ev {
            Ev::Answer(id) => {
                let r = self.sim.with(|s| s.answer_ok(*id));
                self.view.add(&("ans", id, format!("{:?}", r)));
                self.trace.push(format!("  node -> {:?}", r));
            }
            Ev::Fault(id) => {
                self.faults_injected += 1;
                let r = self.sim.with(|s| s.answer_fault(*id, false, SimErr::Transport("connection refused".into())));
                self.view.add(&("fault", id, format!("{:?}", r)));
            }
            Ev::Resolve(i, st) => {
                self.sim.with(|s| s.resolve_part(*i, *st));
            }
            Ev::Advance(ms) => {
                self.advances += 1;
                self.view.add(&("adv", ms));
                let d = Duration::from_millis(*ms);
                self.rt.block_on(async move { tokio::time::advance(d).await });
            }
            Ev::Spawn(c) => {
                self.sim.with(|s| s.spawn_part(*c));
            }
            Ev::End(c, o) => {
                let r = self.sim.with(|s| s.end_pay(*c, o));
                self.view.add(&("payend", c, format!("{:?}", r)));
                self.trace.push(format!("  node -> {:?}", r));
            }
        }
        self.quiesce();
    }

    fn key(&self) -> u128 {
        let mut h = self.view.clone();
        self.sim.with(|s| s.digest(&mut h));
        h.add(&self.result.is_some());
        h.add(&self.faults_injected);
        h.add(&self.advances);
        h.value()
    }

    fn finish(&mut self) {
        if self.result.is_none() {
            // nothing enabled but the call has not returned: a hang
            let pend = self.sim.with(|s| s.pending.iter().map(|p| p.label.clone()).collect::<Vec<_>>());
            self.violations.push(Violation {
                property: self.prop(),
                clause: "returns",
                shape: "call never returns although every RPC was answered".into(),
                detail: format!("pending rpcs {:?}", pend),
            });
        }
    }

    fn take_violations(&mut self) -> Vec<Violation> {
        std::mem::take(&mut self.violations)
    }

    fn trace_hash(&self) -> u64 {
        let mut h = H128::new();
        h.add(&self.trace);
        h.low()
    }

    fn log(&self) -> Vec<String> {
        self.trace.clone()
    }

    fn machinery_error(&self) -> Option<String> {
        self.err.clone()
    }
}

impl Drop for P {
    fn drop(&mut self) {
        // drop tasks before the sim
        self.task.take();
    }
}

pub fn configs_wait(max_parts: usize, faults: bool) -> Vec<PCfg> {
    let sts = [PartStatus::Pending, PartStatus::Failed(204), PartStatus::Complete];
    let mut out = Vec::new();
    for n in 0..=max_parts {
        let total = sts.len().pow(n as u32);
        for mut k in 0..total {
            let mut v = Vec::new();
            for _ in 0..n {
                v.push(sts[k % 3]);
                k /= 3;
            }
            // parts are interchangeable: keep only sorted representatives
            let code = |s: &PartStatus| match s {
                PartStatus::Pending => 0,
                PartStatus::Failed(_) => 1,
                PartStatus::Complete => 2,
            };
            if v.windows(2).any(|w| code(&w[0]) > code(&w[1])) {
                continue;
            }
            out.push(PCfg {
                name: format!("wait/{}parts/{:?}", n, v),
                mode: Mode::Wait,
                initial: v,
                max_new_parts: 0,
                fail_codes: vec![202, 203, 204, 209],
                faults,
                sequential: false,
            });
        }
    }
    out
}

pub fn configs_pay(max_new: u32, faults: bool) -> Vec<PCfg> {
    let mut out = Vec::new();
    for xpay in [false, true] {
        let mut initials = vec![vec![], vec![PartStatus::Failed(204)]];
        if faults {
            // thorough tier: parts of an earlier command still pending / already complete when pay is called
            initials.push(vec![PartStatus::Pending]);
            initials.push(vec![PartStatus::Complete]);
        }
        for initial in initials {
            out.push(PCfg {
                name: format!("pay/xpay={}/initial={:?}/new<={}", xpay, initial, max_new),
                mode: Mode::Pay { xpay },
                initial,
                max_new_parts: max_new,
                fail_codes: vec![203, 204],
                faults,
                sequential: false,
            });
        }
    }
    out
}


/// Many pending parts (more than any batching constant a wrapper might use), canonical order only.
pub fn configs_wait_many() -> Vec<PCfg> {
    let mut out = Vec::new();
    for n in [5usize, 6, 9] {
        out.push(PCfg {
            name: format!("wait/{}pending/sequential", n),
            mode: Mode::Wait,
            initial: vec![PartStatus::Pending; n],
            max_new_parts: 0,
            fail_codes: vec![204],
            faults: false,
            sequential: true,
        });
    }
    out
}
