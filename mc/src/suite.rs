//! Which engines / scenarios / bounds decide which property, per tier.
use std::sync::Arc;

use crate::{
    engine_i, engine_p,
    engine_w::WCfg,
    scen,
};

pub enum Job {
    W { cfg: Arc<WCfg>, bound: u32, big: bool },
    P { cfg: engine_p::PCfg, bound: u32 },
    B { cfg: crate::engine_b::BCfg, bound: u32 },
    I { name: &'static str, run: fn(bool, usize) -> engine_i::Report },
    Other { name: &'static str, run: fn(bool, usize, &'static str) -> crate::OtherResult },
}

impl Job {
    pub fn name(&self) -> String {
        match self {
            Job::W { cfg, .. } => cfg.name.clone(),
            Job::P { cfg, .. } => cfg.name.clone(),
            Job::B { cfg, .. } => cfg.name.clone(),
            Job::I { name, .. } => name.to_string(),
            Job::Other { name, .. } => name.to_string(),
        }
    }
}

fn w(c: WCfg, props: &[&'static str], bound: u32, big: bool) -> Job {
    Job::W {
        cfg: scen::with_props(c, props),
        bound,
        big,
    }
}

const HIST_KINDS: [&str; 8] = [
    "none",
    "free",
    "pending-nopart",
    "pending-noattempt",
    "pending-pendingpart",
    "pending-failedpart",
    "pending-completepart",
    "succeeded",
];

/// The life-cycle scenario set shared by C02 / C05 / C08 (and monitored by C01, C06, C16).
fn life_jobs(props: &[&'static str], thorough: bool, read_faults: bool) -> Vec<Job> {
    let mut v = Vec::new();
    if thorough {
        // The thorough tier = the quick tier's jobs as they are (with the preemption deviation `Park`), plus the
        // deeper ones below ("/deep": one more deviation level, more stored histories, read faults, `Hold`) over
        // environment events and run-queue orders only: a `Park` at every preemption point of every step of the
        // deepest level triples the largest jobs and pushes four properties over the 40 min cap.
        v = life_jobs(props, false, read_faults);
    }
    let rf = |mut c: WCfg| {
        c.read_faults = read_faults && thorough;
        // thorough tier: one event may be held back so that it reaches the plugin together with the next one
        c.max_holds = if thorough { 1 } else { 0 };
        if thorough {
            c.max_parks = 0;
            c.name = format!("{}/deep", c.name);
        }
        c
    };
    // the small scenario first: under a time cap the cheap jobs are the ones that are certain to complete
    if !thorough {
        v.push(w(scen::s_park(false), props, 2, true));
    } else {
        let mut c = scen::s_park(false);
        c.name = format!("{}/deep", c.name);
        v.push(w(c, props, 3, true));
        v.push(w(scen::s_park(true), props, 2, true));
    }
    if !thorough {
        v.push(w(scen::s_life("S-life/1htlc", false, false, false), props, 3, true));
        v.push(w(scen::s_life("S-life/2htlc", true, false, false), props, 3, true));
        v.push(w(scen::s_life("S-life/1htlc+retry", false, false, true), props, 3, true));
        v.push(w(scen::s_life("S-life/2htlc+extra", true, true, false), props, 3, true));
    } else {
        // one level deeper on the two core scenarios, read faults everywhere, two crashes / two faults at level 3
        v.push(w(rf(scen::s_life("S-life/1htlc", false, false, false)), props, 4, true));
        v.push(w(rf(scen::s_life("S-life/2htlc", true, false, false)), props, 4, true));
        v.push(w(rf(scen::s_life("S-life/1htlc+retry", false, false, true)), props, 4, true));
        v.push(w(rf(scen::s_life("S-life/2htlc+extra", true, true, false)), props, 3, true));
        v.push(w(rf(scen::s_life("S-life/2htlc+retry", true, false, true)), props, 3, true));
        let mut c = scen::s_life("S-life/1htlc/2crashes+2faults", false, false, false);
        c.max_crashes = 2;
        c.max_faults = 2;
        v.push(w(rf(c), props, 3, true));
    }
    v.push(w(rf(scen::s_overlap()), props, if thorough { 4 } else { 2 }, true));
    v.push(w(rf(scen::s_life_xpay()), props, if thorough { 3 } else { 2 }, true));
    v.push(w(rf(scen::s_life_amountless()), props, if thorough { 3 } else { 2 }, true));
    v.push(w(rf(scen::s_hist_two_pending(0)), props, if thorough { 3 } else { 2 }, false));
    for k in HIST_KINDS {
        for age in if thorough { vec![0u64, 59, 61, 1_000_000] } else { vec![0u64, 61] } {
            for two in [false, true] {
                if two && !thorough && k != "pending-pendingpart" {
                    continue;
                }
                v.push(w(rf(scen::s_hist(k, age, two)), props, if thorough && age == 0 { 3 } else { 2 }, false));
            }
        }
    }
    v
}

pub fn jobs(id: &str, thorough: bool) -> Vec<Job> {
    let mut v: Vec<Job> = Vec::new();
    match id {
        "C01" => {
            let p: &[&'static str] = &["C01"];
            for (ht, it) in [(1u8, 1u8), (1, 2), (2, 1), (2, 2)] {
                for two in [false, true] {
                    v.push(w(scen::s_hash(ht, it, two), p, if thorough { 3 } else { 2 }, false));
                }
            }
            v.extend(life_jobs(p, thorough, false).into_iter().take(if thorough { 200 } else { 3 }));
            for k in ["pending-completepart", "succeeded", "pending-pendingpart"] {
                v.push(w(scen::s_hist(k, 0, false), p, if thorough { 3 } else { 2 }, false));
            }
            v.push(w(scen::s_two_hashes(), p, if thorough { 3 } else { 2 }, true));
            v.push(w(scen::s_hash_mixed(false), p, if thorough { 3 } else { 2 }, false));
            v.push(w(scen::s_hash_mixed(true), p, if thorough { 3 } else { 2 }, false));
        }
        "C02" => v = life_jobs(&["C02"], thorough, true),
        "C05" => v = life_jobs(&["C05"], thorough, false),
        "C08" => v = life_jobs(&["C08"], thorough, false),
        "C03" => {
            for c in scen::s_amt() {
                let slow = c.name.ends_with("slow-store");
                v.push(w(c, &["C03"], if thorough { if slow { 3 } else { 2 } } else if slow { 2 } else { 1 }, false));
            }
            v.push(w(scen::s_life("S-life/2htlc+extra", true, true, false), &["C03"], if thorough { 3 } else { 2 }, true));
        }
        "C04" => {
            for c in scen::s_cltv() {
                v.push(w(c, &["C04"], if thorough { 3 } else { 2 }, false));
            }
        }
        "C06" => {
            for mut c in scen::s_many() {
                c.read_faults = thorough;
                c.max_holds = 1;
                v.push(w(c, &["C06"], if thorough { 3 } else { 2 }, true));
            }
            for j in life_jobs(&["C06"], thorough, true).into_iter().take(if thorough { 200 } else { 4 }) {
                v.push(j);
            }
            v.push(Job::I {
                name: "I/C06-inputs",
                run: engine_i::c06_inputs,
            });
            v.push(Job::Other {
                name: "E/malformed-payloads",
                run: crate::engine_e::malformed,
            });
        }
        "C07" => {
            for c in scen::s_set(thorough) {
                v.push(w(c, &["C07"], if thorough { 3 } else { 2 }, false));
            }
            v.push(w(scen::s_life("S-life/2htlc+extra", true, true, false), &["C07"], 2, true));
            for c in scen::s_set_cancel() {
                v.push(w(c, &["C07"], if thorough { 3 } else { 2 }, false));
            }
        }
        "C09" => {
            for (name, two, retry) in [("S-life/1htlc/probe", false, false), ("S-life/2htlc/probe", true, false)] {
                let mut c = scen::s_life(name, two, false, retry);
                c.probe = true;
                v.push(w(c, &["C09"], if thorough { 3 } else { 2 }, true));
            }
            for k in HIST_KINDS {
                let mut c = scen::s_hist(k, 0, false);
                c.probe = true;
                v.push(w(c, &["C09"], if thorough { 3 } else { 2 }, false));
            }
        }
        "C10" => {
            // the full product is cheap (about 3 200 worlds, 2 s): both tiers run it; thorough adds one deviation
            for c in scen::s_classify(true) {
                v.push(w(c, &["C10"], if thorough { 1 } else { 0 }, false));
            }
        }
        "C11" => {
            for c in scen::s_mpp() {
                v.push(w(c, &["C11"], if thorough { 3 } else { 2 }, false));
            }
        }
        "C12" => {
            v.push(Job::I {
                name: "I/C12-fee",
                run: |t, _| engine_i::c12_fee(t),
            });
            v.push(Job::I {
                name: "I/C12-encode",
                run: |_, _| engine_i::c12_encode(),
            });
            for c in scen::s_first() {
                v.push(w(c, &["C12"], if thorough { 2 } else { 1 }, false));
            }
        }
        "C13" => {
            for c in scen::s_passthrough(thorough) {
                // default path only: the differential baseline is the happy path of the following payment
                v.push(w(c, &["C13"], 0, false));
            }
        }
        "C14" => {
            for c in scen::s_isolation(thorough) {
                v.push(w(c, &["C14"], if thorough { 3 } else { 2 }, false));
            }
        }
        "C20" => {
            for (cfg, bound) in crate::engine_b::configs(thorough) {
                v.push(Job::B { cfg, bound });
            }
        }
        "C19" => {
            v.push(Job::Other {
                name: "E/config",
                run: crate::engine_e::run,
            });
        }
        "C17" => {
            v.push(Job::Other {
                name: "F/plain",
                run: crate::engine_f::run,
            });
            v.push(Job::Other {
                name: "F/logging",
                run: crate::engine_f::run_logging_child,
            });
        }
        "C15" => {
            for c in engine_p::configs_wait(if thorough { 3 } else { 2 }, false) {
                v.push(Job::P { cfg: c, bound: 0 });
            }
            for c in engine_p::configs_wait(2, true) {
                v.push(Job::P { cfg: c, bound: 1 });
            }
            for c in engine_p::configs_wait_many() {
                v.push(Job::P { cfg: c, bound: 0 });
            }
        }
        "C16" => {
            for c in engine_p::configs_pay(2, false) {
                v.push(Job::P { cfg: c, bound: 0 });
            }
            if thorough {
                for c in engine_p::configs_pay(2, true) {
                    v.push(Job::P { cfg: c, bound: 1 });
                }
            }
            v.extend(life_jobs(&["C16"], thorough, false).into_iter().take(if thorough { 200 } else { 3 }));
        }
        "C18" => v.push(Job::I {
            name: "I/C18-tlv",
            run: engine_i::c18,
        }),
        _ => {}
    }
    // the in-process engines are bound to the real binary by replaying explored histories against it
    if matches!(id, "C01" | "C02" | "C03" | "C05" | "C06" | "C07" | "C08" | "C16") {
        v.push(Job::Other {
            name: "E/conformance",
            run: crate::engine_e::conformance,
        });
    }
    v
}

pub const ALL_IDS: [&str; 20] = [
    "C01", "C02", "C03", "C04", "C05", "C06", "C07", "C08", "C09", "C10", "C11", "C12", "C13", "C14", "C15", "C16", "C17", "C18", "C19", "C20",
];
