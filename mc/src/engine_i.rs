//! Engine I: bounded-exhaustive input enumeration of the pure entry points
//! (fee predicate, failure encoding, TLV codec, tu64) against independent
//! reference implementations.
use std::{
    panic::{catch_unwind, AssertUnwindSafe},
    sync::{
        atomic::{AtomicU64, Ordering},
        Mutex,
    },
};

use bytes::Bytes;

use crate::{
    common::put_bigsize,
    explore::Violation,
    messages::{HtlcFailReason, TrampolineRoutingPolicy},
    sched,
    tlv::{FromBytes, ProtoBuf, SerializedTlvStream, TlvEntry, ToBytes},
};

#[derive(Default)]
pub struct Report {
    pub evaluations: u64,
    pub distinct_nontrivial: u64,
    pub rule: String,
    pub samples: Vec<serde_json::Value>,
    pub found: Vec<(Violation, serde_json::Value)>,
    pub exhaustive: bool,
    pub notes: Vec<String>,
}

impl Report {
    fn add_found(&mut self, v: Violation, input: serde_json::Value) {
        if !self.found.iter().any(|f| f.0.signature() == v.signature()) {
            self.found.push((v, input));
        }
    }
}

fn guarded<T>(f: impl FnOnce() -> T) -> Result<T, String> {
    sched::QUIET_MAIN.with(|q| q.set(true));
    match catch_unwind(AssertUnwindSafe(f)) {
        Ok(v) => Ok(v),
        Err(_) => {
            let p = sched::take_panics();
            Err(p.last().cloned().unwrap_or_else(|| "panic".into()).replace('\n', " | "))
        }
    }
}

fn panic_shape(p: &str) -> String {
    // keep the message, drop the location (line numbers move)
    let msg = p.splitn(2, " | ").nth(1).unwrap_or(p);
    msg.chars().take(80).collect()
}

/// Is this binary built with overflow checks? (decided by running an overflowing add)
pub fn overflow_checks_on() -> bool {
    sched::QUIET_MAIN.with(|q| q.set(true));
    let r = catch_unwind(|| {
        let x: u8 = std::hint::black_box(255);
        std::hint::black_box(x + std::hint::black_box(1))
    });
    sched::take_panics();
    r.is_err()
}

// ------------------------------------------------------------------ C12

pub fn fee_reference(base: u32, ppm: u32, total: u64, amount: u64) -> bool {
    let rhs = amount as u128 + base as u128 + (amount as u128 * ppm as u128) / 1_000_000u128;
    rhs <= u64::MAX as u128 && (total as u128) >= rhs
}

fn m32() -> Vec<u32> {
    vec![0, 1, 2, 1000, 5000, 999_999, 1_000_000, 1_000_001, 1 << 31, u32::MAX - 1, u32::MAX]
}

fn m64(ppm: u32, base: u32) -> Vec<u64> {
    let mut v: Vec<u64> = vec![
        0,
        1,
        2,
        999_999,
        1_000_000,
        1_000_001,
        (1 << 32) - 1,
        1 << 32,
        (1 << 32) + 1,
        (1 << 63) - 1,
        1 << 63,
        (1 << 63) + 1,
        u64::MAX - 3,
        u64::MAX - 2,
        u64::MAX - 1,
        u64::MAX,
    ];
    if ppm > 0 {
        let q = u64::MAX / ppm as u64;
        for d in [-1i64, 0, 1] {
            v.push(q.wrapping_add(d as u64));
        }
    }
    // smallest amount with amount + fee >= 2^64 (binary search on the u128 reference) and neighbours
    let f = |a: u64| a as u128 + base as u128 + (a as u128 * ppm as u128) / 1_000_000u128;
    if f(u64::MAX) > u64::MAX as u128 {
        let (mut lo, mut hi) = (0u64, u64::MAX);
        while lo < hi {
            let mid = lo + (hi - lo) / 2;
            if f(mid) > u64::MAX as u128 {
                hi = mid;
            } else {
                lo = mid + 1;
            }
        }
        for d in [-2i64, -1, 0, 1] {
            v.push(lo.wrapping_add(d as u64));
        }
    }
    v.sort();
    v.dedup();
    v
}

pub fn c12_fee(thorough: bool) -> Report {
    let mut rep = Report::default();
    let build = if overflow_checks_on() { "overflow-checks=on" } else { "overflow-checks=off" };
    rep.rule = format!(
        "fee_sufficient(total, amount) under policy (base, ppm) vs the u128 reference total >= amount + base + floor(amount*ppm/1e6) (false if the right side needs more than 64 bits), no panic; grid = boundary amounts (powers of two +-1, u64::MAX-k, floor(2^64/ppm)+-1, the smallest amount whose right side overflows and its neighbours) x 11 base values x 11 ppm values x totals {{0, amount-1, amount, rhs-1, rhs, rhs+1, u64::MAX}}{}; build {}; a case is non-trivial when the reference says true or the right side overflows 64 bits",
        if thorough { " + exhaustive box amount,total < 4096, base < 4, ppm in {0,1,250000,1000000}" } else { " + exhaustive box amount,total < 512, base < 3, ppm in {0,1,250000,1000000}" },
        build
    );
    let mut check = |rep: &mut Report, base: u32, ppm: u32, total: u64, amount: u64| {
        let policy = TrampolineRoutingPolicy {
            cltv_expiry_delta: 1008,
            fee_base_msat: base,
            fee_proportional_millionths: ppm,
        };
        let want = fee_reference(base, ppm, total, amount);
        let rhs = amount as u128 + base as u128 + (amount as u128 * ppm as u128) / 1_000_000u128;
        rep.evaluations += 1;
        if want || rhs > u64::MAX as u128 {
            rep.distinct_nontrivial += 1;
        }
        let input = serde_json::json!({"base": base, "ppm": ppm, "total": total, "amount": amount, "reference": want, "build": build});
        match guarded(|| policy.fee_sufficient(total, amount)) {
            Ok(got) if got == want => {}
            Ok(got) => rep.add_found(
                Violation {
                    property: "C12",
                    clause: "exact",
                    shape: format!(
                        "fee_sufficient returns {} where the exact predicate is {} ({})",
                        got,
                        want,
                        if rhs > u64::MAX as u128 {
                            "right side exceeds 64 bits"
                        } else if amount as u128 * ppm as u128 > u64::MAX as u128 {
                            "right side fits in 64 bits but the intermediate product amount*ppm does not"
                        } else {
                            "everything fits in 64 bits"
                        }
                    ),
                    detail: input.to_string(),
                },
                input,
            ),
            Err(p) => rep.add_found(
                Violation {
                    property: "C12",
                    clause: "no-panic",
                    shape: format!("fee_sufficient panics: {}", panic_shape(&p)),
                    detail: format!("{} :: {}", input, p),
                },
                input,
            ),
        }
    };
    for base in m32() {
        for ppm in m32() {
            for amount in m64(ppm, base) {
                let rhs = amount as u128 + base as u128 + (amount as u128 * ppm as u128) / 1_000_000u128;
                let mut totals: Vec<u64> = vec![0, amount.wrapping_sub(1), amount, u64::MAX];
                if rhs <= u64::MAX as u128 {
                    let r = rhs as u64;
                    totals.push(r.wrapping_sub(1));
                    totals.push(r);
                    if r < u64::MAX {
                        totals.push(r + 1);
                    }
                }
                totals.sort();
                totals.dedup();
                for total in totals {
                    check(&mut rep, base, ppm, total, amount);
                }
            }
        }
    }
    let (n, nb) = if thorough { (4096u64, 4u32) } else { (512u64, 3u32) };
    for base in 0..nb {
        for ppm in [0u32, 1, 250_000, 1_000_000] {
            for amount in 0..n {
                for total in 0..n {
                    check(&mut rep, base, ppm, total, amount);
                }
            }
        }
    }
    rep.samples = vec![
        serde_json::json!({"base":0,"ppm":5000,"total":1_005_000u64,"amount":1_000_000u64,"reference":true}),
        serde_json::json!({"base":1,"ppm":0,"total":u64::MAX,"amount":u64::MAX,"reference":false}),
    ];
    rep.exhaustive = true;
    rep
}

pub fn c12_encode() -> Report {
    let mut rep = Report::default();
    rep.rule = "HtlcFailReason::TrampolineFeeOrExpiryInsufficient(policy).encode() for every policy in M32 x M32 x {0,1,1008,65535} must equal 20 1a || base(be32) || ppm(be32) || delta(be16); non-trivial = any non-zero field".into();
    for base in m32() {
        for ppm in m32() {
            for delta in [0u16, 1, 1008, 65535] {
                let policy = TrampolineRoutingPolicy {
                    cltv_expiry_delta: delta,
                    fee_base_msat: base,
                    fee_proportional_millionths: ppm,
                };
                let mut want = vec![0x20, 0x1a];
                want.extend_from_slice(&base.to_be_bytes());
                want.extend_from_slice(&ppm.to_be_bytes());
                want.extend_from_slice(&delta.to_be_bytes());
                rep.evaluations += 1;
                if base != 0 || ppm != 0 || delta != 0 {
                    rep.distinct_nontrivial += 1;
                }
                let input = serde_json::json!({"base": base, "ppm": ppm, "delta": delta});
                match guarded(|| HtlcFailReason::TrampolineFeeOrExpiryInsufficient(policy.clone()).encode()) {
                    Ok(got) if got == want => {}
                    Ok(got) => rep.add_found(
                        Violation {
                            property: "C12",
                            clause: "encoding",
                            shape: "fee-or-expiry-insufficient failure does not encode (base, ppm, delta) big-endian".into(),
                            detail: format!("{} got {} want {}", input, hex::encode(got), hex::encode(&want)),
                        },
                        input,
                    ),
                    Err(p) => rep.add_found(
                        Violation {
                            property: "C12",
                            clause: "no-panic",
                            shape: format!("encode panics: {}", panic_shape(&p)),
                            detail: p,
                        },
                        input,
                    ),
                }
            }
        }
    }
    rep.samples = vec![serde_json::json!({"base":1000,"ppm":5000,"delta":1008,"bytes":"201a000003e80000138803f0"})];
    rep.exhaustive = true;
    rep
}

// ------------------------------------------------------------------ C18

/// Independent strict BOLT TLV-stream parser. None = not a valid stream.
pub fn ref_parse_stream(mut b: &[u8]) -> Option<Vec<(u64, Vec<u8>)>> {
    fn bigsize(b: &mut &[u8]) -> Option<u64> {
        let first = *b.first()?;
        *b = &b[1..];
        let (n, min): (usize, u64) = match first {
            0xfd => (2, 0xfd),
            0xfe => (4, 0x1_0000),
            0xff => (8, 0x1_0000_0000),
            v => return Some(v as u64),
        };
        if b.len() < n {
            return None;
        }
        let mut v = 0u64;
        for i in 0..n {
            v = (v << 8) | b[i] as u64;
        }
        *b = &b[n..];
        if v < min {
            return None; // non-minimal
        }
        Some(v)
    }
    let mut out: Vec<(u64, Vec<u8>)> = Vec::new();
    while !b.is_empty() {
        let t = bigsize(&mut b)?;
        if let Some(last) = out.last() {
            if t <= last.0 {
                return None;
            }
        }
        let l = bigsize(&mut b)?;
        if (b.len() as u64) < l {
            return None;
        }
        let l = l as usize;
        out.push((t, b[..l].to_vec()));
        b = &b[l..];
    }
    Some(out)
}

pub fn ref_encode_stream(recs: &[(u64, Vec<u8>)]) -> Vec<u8> {
    let mut out = Vec::new();
    for (t, v) in recs {
        put_bigsize(&mut out, *t);
        put_bigsize(&mut out, v.len() as u64);
        out.extend_from_slice(v);
    }
    out
}

struct TlvCounters {
    evals: AtomicU64,
    nontrivial: AtomicU64,
}

fn entries_of(s: &SerializedTlvStream, max_type_probe: &[u64]) -> Vec<(u64, Vec<u8>)> {
    // SerializedTlvStream keeps its entries private; recover them through the public encoder,
    // parsed with the reference parser in lenient mode (no ordering / minimality demands).
    let bytes = SerializedTlvStream::to_bytes(s.clone());
    let _ = max_type_probe;
    lenient_parse(&bytes)
}

pub fn lenient_parse_pub(b: &[u8]) -> Vec<(u64, Vec<u8>)> {
    lenient_parse(b)
}

fn lenient_parse(mut b: &[u8]) -> Vec<(u64, Vec<u8>)> {
    fn bs(b: &mut &[u8]) -> Option<u64> {
        let first = *b.first()?;
        *b = &b[1..];
        let n = match first {
            0xfd => 2,
            0xfe => 4,
            0xff => 8,
            v => return Some(v as u64),
        };
        if b.len() < n {
            return None;
        }
        let mut v = 0u64;
        for i in 0..n {
            v = (v << 8) | b[i] as u64;
        }
        *b = &b[n..];
        Some(v)
    }
    let mut out = Vec::new();
    while !b.is_empty() {
        let t = match bs(&mut b) {
            Some(t) => t,
            None => break,
        };
        let l = match bs(&mut b) {
            Some(l) => l as usize,
            None => break,
        };
        if b.len() < l {
            break;
        }
        out.push((t, b[..l].to_vec()));
        b = &b[l..];
    }
    out
}

/// Check one input against both decoder entry points. Returns violations.
fn tlv_check_one(x: &[u8], ctr: &TlvCounters, found: &Mutex<Vec<(Violation, serde_json::Value)>>) {
    let report = |v: Violation| {
        let mut f = found.lock().unwrap();
        if !f.iter().any(|e| e.0.signature() == v.signature()) {
            f.push((v, serde_json::json!({"bytes": hex::encode(x)})));
        }
    };
    ctr.evals.fetch_add(1, Ordering::Relaxed);
    // (a) raw stream entry: from_bytes
    let owned = x.to_vec();
    let r = guarded(|| SerializedTlvStream::from_bytes(owned));
    let reference = ref_parse_stream(x);
    match r {
        Err(p) => report(Violation {
            property: "C18",
            clause: "no-panic",
            shape: format!("from_bytes panics: {}", panic_shape(&p)),
            detail: format!("input {} :: {}", hex::encode(x), p),
        }),
        Ok(dec) => {
            if let Some(recs) = &reference {
                if !recs.is_empty() {
                    ctr.nontrivial.fetch_add(1, Ordering::Relaxed);
                }
                match dec {
                    Err(e) => report(Violation {
                        property: "C18",
                        clause: "valid-stream-decodes",
                        shape: "from_bytes rejects a valid BOLT TLV stream".into(),
                        detail: format!("input {} error {}", hex::encode(x), e),
                    }),
                    Ok(s) => {
                        let got = entries_of(&s, &[]);
                        if &got != recs {
                            report(Violation {
                                property: "C18",
                                clause: "records-equal-reference",
                                shape: "from_bytes returns records different from the reference decoding".into(),
                                detail: format!("input {} got {:?} want {:?}", hex::encode(x), got, recs),
                            });
                        }
                        for (t, v) in recs {
                            match s.get(*t) {
                                Some(TlvEntry { typ, value }) if typ == *t && &value == v => {}
                                other => report(Violation {
                                    property: "C18",
                                    clause: "records-equal-reference",
                                    shape: "get(type) does not return the decoded record".into(),
                                    detail: format!("input {} type {} got {:?}", hex::encode(x), t, other),
                                }),
                            }
                        }
                        let back = SerializedTlvStream::to_bytes(s);
                        if back != x {
                            report(Violation {
                                property: "C18",
                                clause: "decode-encode-identity",
                                shape: "to_bytes(from_bytes(x)) != x for a valid stream".into(),
                                detail: format!("input {} back {}", hex::encode(x), hex::encode(back)),
                            });
                        }
                    }
                }
            }
        }
    }
    // (b) length-prefixed entry: try_from(Vec<u8>) as used for the onion payload
    let owned = x.to_vec();
    let r = guarded(|| SerializedTlvStream::try_from(owned));
    match r {
        Err(p) => report(Violation {
            property: "C18",
            clause: "no-panic",
            shape: format!("try_from panics: {}", panic_shape(&p)),
            detail: format!("input {} :: {}", hex::encode(x), p),
        }),
        Ok(dec) => {
            // valid = bigsize(len) || stream with len == stream.len(), stream valid
            let mut b = x;
            let valid = if x.is_empty() {
                Some(Vec::new())
            } else {
                let mut tmp = Vec::new();
                let first = b[0];
                let n = match first {
                    0xfd => 2,
                    0xfe => 4,
                    0xff => 8,
                    _ => 0,
                };
                if b.len() < 1 + n {
                    None
                } else {
                    let l = if n == 0 {
                        first as u64
                    } else {
                        let mut v = 0u64;
                        for i in 0..n {
                            v = (v << 8) | b[1 + i] as u64;
                        }
                        v
                    };
                    put_bigsize(&mut tmp, l);
                    let minimal = tmp.len() == 1 + n;
                    b = &b[1 + n..];
                    if minimal && l == b.len() as u64 {
                        ref_parse_stream(b)
                    } else {
                        None
                    }
                }
            };
            if let Some(recs) = valid {
                match dec {
                    Err(e) => report(Violation {
                        property: "C18",
                        clause: "valid-stream-decodes",
                        shape: "try_from rejects a valid length-prefixed TLV stream".into(),
                        detail: format!("input {} error {}", hex::encode(x), e),
                    }),
                    Ok(s) => {
                        let got = entries_of(&s, &[]);
                        if got != recs {
                            report(Violation {
                                property: "C18",
                                clause: "records-equal-reference",
                                shape: "try_from returns records different from the reference decoding".into(),
                                detail: format!("input {} got {:?} want {:?}", hex::encode(x), got, recs),
                            });
                        }
                    }
                }
            }
        }
    }
}

fn for_all_strings(alphabet: &[u8], max_len: usize, threads: usize, f: &(dyn Fn(&[u8]) + Sync)) {
    // split on the first symbol (and the second when available) across threads
    let jobs: Mutex<Vec<Vec<u8>>> = Mutex::new(Vec::new());
    {
        let mut j = jobs.lock().unwrap();
        j.push(vec![]);
        for a in alphabet {
            if max_len >= 1 {
                j.push(vec![*a]);
            }
        }
    }
    // prefixes of length 0 and 1 are checked as inputs themselves; for length >= 2 each job enumerates
    // all strings that start with its one-symbol prefix
    std::thread::scope(|s| {
        for _ in 0..threads {
            s.spawn(|| loop {
                let job = jobs.lock().unwrap().pop();
                let prefix = match job {
                    Some(p) => p,
                    None => return,
                };
                f(&prefix);
                if prefix.len() == 1 && max_len >= 2 {
                    let mut buf = prefix.clone();
                    rec(alphabet, max_len, &mut buf, f);
                }
            });
        }
    });
    fn rec(alphabet: &[u8], max_len: usize, buf: &mut Vec<u8>, f: &(dyn Fn(&[u8]) + Sync)) {
        for a in alphabet {
            buf.push(*a);
            f(buf);
            if buf.len() < max_len {
                rec(alphabet, max_len, buf, f);
            }
            buf.pop();
        }
    }
}

pub const SMALL_ALPHABET: [u8; 9] = [0x00, 0x01, 0x02, 0x10, 0x21, 0xfc, 0xfd, 0xfe, 0xff];

/// Structured inputs: record lists with type and length at every varint width's minimum and maximum,
/// every truncation offset of their encoding.
pub fn structured_streams() -> Vec<Vec<u8>> {
    let types: [u64; 8] = [0, 0xfc, 0xfd, 0xffff, 0x1_0000, 0xffff_ffff, 0x1_0000_0000, u64::MAX];
    let lens: [usize; 5] = [0, 1, 0xfc, 0xfd, 0x1_0000];
    let mut out: Vec<Vec<u8>> = Vec::new();
    let mut record_sets: Vec<Vec<(u64, Vec<u8>)>> = vec![vec![]];
    for t in types {
        for l in lens {
            record_sets.push(vec![(t, vec![0xab; l])]);
        }
    }
    // 2 and 3 records, increasing types, small values, all width combinations of types
    for i in 0..types.len() {
        for j in (i + 1)..types.len() {
            record_sets.push(vec![(types[i], vec![1]), (types[j], vec![2, 3])]);
            for k in (j + 1)..types.len() {
                record_sets.push(vec![(types[i], vec![]), (types[j], vec![7; 0xfd]), (types[k], vec![9])]);
            }
        }
    }
    for recs in &record_sets {
        let enc = ref_encode_stream(recs);
        // every truncation offset for short encodings; for long ones: around every header and the tail
        let mut offs: Vec<usize> = Vec::new();
        if enc.len() <= 600 {
            offs.extend(0..=enc.len());
        } else {
            offs.extend(0..=20);
            offs.extend(enc.len() - 20..=enc.len());
            offs.extend([0xfc, 0xfd, 0xfe, 0x100, 0x1_0000, 0x1_0001, 0x1_0002]);
        }
        offs.sort();
        offs.dedup();
        for o in offs {
            if o <= enc.len() {
                out.push(enc[..o].to_vec());
                // the same, length-prefixed (valid only at o == len, checked by the reference)
                let mut p = Vec::new();
                put_bigsize(&mut p, o as u64);
                p.extend_from_slice(&enc[..o]);
                out.push(p);
            }
        }
    }
    // headers announcing huge lengths that cannot be materialised (must be an error, not a panic / allocation)
    for t in [1u64, 0xfd, 0x1_0000] {
        for l in [0xffff_ffffu64, 0x1_0000_0000, u64::MAX, (1 << 63) + 5] {
            let mut h = Vec::new();
            put_bigsize(&mut h, t);
            put_bigsize(&mut h, l);
            out.push(h.clone());
            h.extend_from_slice(&[1, 2, 3]);
            out.push(h);
        }
    }
    // non-canonical but decodable inputs (non-minimal varints, decreasing types): decoder must not panic
    out.push(vec![0xfd, 0x00, 0x01, 0x01, 0xaa]);
    out.push(vec![0x05, 0x01, 0xaa, 0x03, 0x01, 0xbb]);
    out.push(vec![0x05, 0xfd, 0x00, 0x01, 0xaa]);
    out
}

pub fn c18(thorough: bool, threads: usize) -> Report {
    let mut rep = Report::default();
    let ctr = TlvCounters {
        evals: AtomicU64::new(0),
        nontrivial: AtomicU64::new(0),
    };
    let found: Mutex<Vec<(Violation, serde_json::Value)>> = Mutex::new(Vec::new());
    let all: Vec<u8> = (0..=255u8).collect();
    let full_len = if thorough { 4 } else { 3 };
    let small_len = if thorough { 8 } else { 6 };
    let f = |x: &[u8]| {
        sched_clear();
        tlv_check_one(x, &ctr, &found);
    };
    for_all_strings(&all, full_len, threads, &f);
    for_all_strings(&SMALL_ALPHABET, small_len, threads, &f);
    let structured = structured_streams();
    for s in &structured {
        f(s);
    }
    // encode -> decode on generated record lists
    let mut enc_dec = 0u64;
    for s in &structured {
        if let Some(recs) = ref_parse_stream(s) {
            enc_dec += 1;
            let entries: Vec<TlvEntry> = recs.iter().map(|(t, v)| TlvEntry { typ: *t, value: v.clone() }).collect();
            let stream = SerializedTlvStream::from(entries);
            let bytes = SerializedTlvStream::to_bytes(stream.clone());
            if bytes != ref_encode_stream(&recs) {
                found.lock().unwrap().push((
                    Violation {
                        property: "C18",
                        clause: "encode-equals-reference",
                        shape: "to_bytes differs from the reference BigSize encoding".into(),
                        detail: format!("records {:?}", recs.iter().map(|(t, v)| (t, v.len())).collect::<Vec<_>>()),
                    },
                    serde_json::json!({"records": recs.iter().map(|(t, v)| (t, hex::encode(v))).collect::<Vec<_>>()}),
                ));
            }
            let b2 = bytes.clone();
            match guarded(|| SerializedTlvStream::from_bytes(b2)) {
                Ok(Ok(back)) if back == stream => {}
                other => {
                    found.lock().unwrap().push((
                        Violation {
                            property: "C18",
                            clause: "encode-decode-identity",
                            shape: "from_bytes(to_bytes(r)) != r".into(),
                            detail: format!("records {:?} -> {:?}", recs.iter().map(|(t, v)| (t, v.len())).collect::<Vec<_>>(), other.map(|r| r.map(|_| "different stream").map_err(|e| e.to_string()))),
                        },
                        serde_json::json!({"bytes": hex::encode(&bytes[..bytes.len().min(64)])}),
                    ));
                }
            }
        }
    }
    // tu64
    let mut tu = 0u64;
    let mut tu_nontrivial = 0u64;
    let sym = [0x00u8, 0x01, 0x7f, 0x80, 0xff];
    let mut stack: Vec<Vec<u8>> = vec![vec![]];
    while let Some(x) = stack.pop() {
        tu += 1;
        let want: Option<u64> = if x.len() <= 8 {
            let mut v = 0u64;
            for b in &x {
                v = (v << 8) | *b as u64;
            }
            Some(v)
        } else {
            None
        };
        if want.map(|v| v != 0).unwrap_or(true) {
            tu_nontrivial += 1;
        }
        let xb = x.clone();
        let got = guarded(|| {
            let mut b: Bytes = xb.into();
            b.get_tu64()
        });
        let bad = match (&got, want) {
            (Ok(Ok(g)), Some(w)) => *g != w,
            (Ok(Err(_)), None) => false,
            _ => true,
        };
        if bad {
            let shape = match &got {
                Err(p) => format!("get_tu64 panics: {}", panic_shape(p)),
                Ok(Ok(_)) if want.is_none() => "get_tu64 accepts more than 8 bytes".into(),
                Ok(Ok(_)) => "get_tu64 returns a value other than the big-endian value".into(),
                Ok(Err(_)) => "get_tu64 rejects a field of 0..8 bytes".into(),
            };
            found.lock().unwrap().push((
                Violation {
                    property: "C18",
                    clause: "tu64",
                    shape,
                    detail: format!("input {} got {:?} want {:?}", hex::encode(&x), got.as_ref().map(|r| r.as_ref().map_err(|e| e.to_string())), want),
                },
                serde_json::json!({"tu64": hex::encode(&x)}),
            ));
        }
        if x.len() < 9 {
            for s in sym {
                let mut y = x.clone();
                y.push(s);
                stack.push(y);
            }
        }
    }
    rep.evaluations = ctr.evals.load(Ordering::Relaxed) + tu + enc_dec;
    rep.distinct_nontrivial = ctr.nontrivial.load(Ordering::Relaxed) + tu_nontrivial + enc_dec;
    rep.rule = format!(
        "from_bytes and try_from on every byte string of length <= {} over all 256 byte values, every string of length <= {} over the alphabet {{00,01,02,10,21,fc,fd,fe,ff}}, and {} structured inputs (0-3 records, type/length at each varint width's min and max, truncated at every offset, raw and length-prefixed; unmaterialisable lengths); oracle: no panic, and on every input the independent strict BOLT parser accepts, records equal the reference and re-encoding reproduces the input; {} record lists encoded then decoded; get_tu64 on all {} strings of length 0-9 over {{00,01,7f,80,ff}}. Non-trivial = the reference accepts the input with at least one record / a non-zero or rejected tu64",
        full_len,
        small_len,
        structured.len(),
        enc_dec,
        tu
    );
    let mut fs = found.into_inner().unwrap();
    // dedup by signature
    let mut seen = std::collections::BTreeSet::new();
    fs.retain(|f| seen.insert(f.0.signature()));
    rep.found = fs;
    rep.samples = vec![
        serde_json::json!({"bytes": "fd", "expect": "error, not a panic"}),
        serde_json::json!({"bytes": "0203aabbcc", "expect": "one record type 2"}),
        serde_json::json!({"structured": hex::encode(&structured[structured.len() / 3][..structured[structured.len() / 3].len().min(24)])}),
    ];
    rep.exhaustive = true;
    rep
}

fn sched_clear() {}

// ------------------------------------------------------------------ C06 inputs

/// Malformed / arbitrary payload bytes through the serde entry of `HtlcAcceptedRequest` and through
/// `handle_htlc` (as a forward and as a final hop): no panic, a response on the first poll that serialises.
pub fn c06_inputs(thorough: bool, _threads: usize) -> Report {
    use crate::engine_w::{WCfg, W};
    use crate::explore::Model;
    let mut rep = Report::default();
    let mut inputs: Vec<Vec<u8>> = vec![vec![]];
    for a in 0..=255u8 {
        inputs.push(vec![a]);
    }
    let two: Vec<u8> = if thorough { (0..=255u8).collect() } else { vec![0, 1, 2, 16, 0x21, 0x80, 0xfc, 0xfd, 0xfe, 0xff] };
    for a in 0..=255u8 {
        for b in &two {
            inputs.push(vec![a, *b]);
        }
    }
    inputs.extend(structured_streams().into_iter().filter(|s| s.len() < 70_000));
    // --- serde entry
    let mut ok_parse = 0u64;
    for x in &inputs {
        for with_fields in [true, false] {
            let mut onion = serde_json::json!({"payload": hex::encode(x), "type": "tlv", "shared_secret": "00"});
            if with_fields {
                onion["forward_msat"] = serde_json::json!(u64::MAX);
                onion["total_msat"] = serde_json::json!(0);
            }
            let v = serde_json::json!({
                "onion": onion,
                "htlc": {"short_channel_id": "1x2x3", "id": u64::MAX, "amount_msat": u64::MAX, "cltv_expiry": u32::MAX, "cltv_expiry_relative": i64::MIN, "payment_hash": "00"},
            });
            rep.evaluations += 1;
            match guarded(|| serde_json::from_value::<crate::messages::HtlcAcceptedRequest>(v)) {
                Ok(Ok(_)) => ok_parse += 1,
                Ok(Err(_)) => {}
                Err(p) => rep.add_found(
                    Violation {
                        property: "C06",
                        clause: "no-panic",
                        shape: format!("deserialising the htlc_accepted request panics: {}", panic_shape(&p)),
                        detail: format!("payload {} :: {}", hex::encode(&x[..x.len().min(40)]), p),
                    },
                    serde_json::json!({"payload": hex::encode(&x[..x.len().min(64)])}),
                ),
            }
        }
    }
    // --- handle_htlc with arbitrary record-16 values
    let mut cfg = WCfg::base("I/C06-inputs");
    cfg.add_invoice(&crate::common::InvoiceSpec::fixed(1, 1_000_000));
    cfg.props = ["C06"].into_iter().collect();
    let cfg = std::sync::Arc::new(cfg);
    let mut world = W::new(&cfg);
    let mut ready = 0u64;
    for x in &inputs {
        for forward in [false, true] {
            for fwd in [Some(0u64), None, Some(u64::MAX)] {
                let spec = crate::common::HtlcSpec {
                    name: "x".into(),
                    id: 1,
                    payment_hash: vec![7; 32],
                    amount_msat: 1,
                    cltv_expiry: 0,
                    cltv_expiry_relative: Some(i64::MIN),
                    forward_msat: fwd,
                    total_msat: Some(u64::MAX),
                    forward_scid: forward,
                    metadata: Some(x.clone()),
                    extra_records: vec![(2, vec![1]), (18, vec![2, 3]), (65537, vec![])],
                };
                rep.evaluations += 1;
                let r = world.poll_htlc_once(spec.request(0));
                match r {
                    Ok(Some(resp)) => {
                        ready += 1;
                        if serde_json::to_value(&resp).is_err() {
                            rep.add_found(
                                Violation {
                                    property: "C06",
                                    clause: "well-formed-response",
                                    shape: "response does not serialise".into(),
                                    detail: hex::encode(&x[..x.len().min(40)]),
                                },
                                serde_json::json!({"metadata": hex::encode(&x[..x.len().min(64)])}),
                            );
                        }
                    }
                    Ok(None) => rep.add_found(
                        Violation {
                            property: "C06",
                            clause: "answered",
                            shape: "htlc with unusable payment metadata is not answered at once".into(),
                            detail: format!("metadata {} forward {} fwd_msat {:?}", hex::encode(&x[..x.len().min(40)]), forward, fwd),
                        },
                        serde_json::json!({"metadata": hex::encode(&x[..x.len().min(64)]), "forward": forward}),
                    ),
                    Err(p) => rep.add_found(
                        Violation {
                            property: "C06",
                            clause: "no-panic",
                            shape: format!("handle_htlc panics: {}", panic_shape(&p)),
                            detail: format!("metadata {} forward {} :: {}", hex::encode(&x[..x.len().min(40)]), forward, p),
                        },
                        serde_json::json!({"metadata": hex::encode(&x[..x.len().min(64)]), "forward": forward}),
                    ),
                }
            }
        }
    }
    rep.distinct_nontrivial = ok_parse + ready;
    rep.rule = format!(
        "{} payload / payment-metadata byte strings (every string of length <= 1, {} of length 2, and the structured truncation set of C18) fed (a) as onion payload hex through serde_json::from_value::<HtlcAcceptedRequest> with extreme numeric fields and (b) as record 16 of a request handed to the real HtlcManager::handle_htlc, as forward and as final hop, forward_msat in {{0, absent, u64::MAX}}; oracle: no panic, handle_htlc answers without any environment event, with a response that serialises. Non-trivial = requests that deserialise / calls that returned a response",
        inputs.len(),
        if thorough { "all 65536" } else { "2560" }
    );
    rep.samples = vec![
        serde_json::json!({"payload":"fd","entry":"serde"}),
        serde_json::json!({"metadata":"fd80e9","entry":"handle_htlc","as":"final hop"}),
    ];
    rep.exhaustive = true;
    rep
}
