//! Engine E: the real `trampoline` binary (built from /repo), spoken to over its
//! real stdin/stdout and a real unix socket served by the simulated node.
//! Enumerates startup configurations (C19): refuse-or-apply-faithfully.
use std::{
    io::{BufRead, BufReader, Read, Write},
    os::unix::net::{UnixListener, UnixStream},
    path::{Path, PathBuf},
    process::{Child, ChildStdin, Command, Stdio},
    sync::{
        atomic::{AtomicBool, AtomicU64, Ordering},
        mpsc, Arc, Mutex,
    },
    time::{Duration, Instant},
};

use serde_json::{json, Value};

use crate::{
    common::{self, Hint, HtlcSpec, InvoiceSpec},
    explore::Violation,
    sim::{Method, Sim},
    FoundAny, JobResult,
};

pub fn binary() -> String {
    format!("{}/e2e/debug/trampoline", crate::target_dir())
}

#[derive(Clone, Debug, PartialEq)]
pub struct Config {
    pub cltv_delta: i64,
    pub policy_delta: i64,
    pub fee_base: i64,
    pub fee_ppm: i64,
    pub mpp_timeout: i64,
    pub payment_timeout: i64,
    pub no_self_hints: bool,
    pub xpay: bool,
    /// which options are passed explicitly (others are left to their defaults)
    pub explicit: Vec<&'static str>,
}

impl Config {
    pub fn default() -> Config {
        Config {
            cltv_delta: 34,
            policy_delta: 1008,
            fee_base: 0,
            fee_ppm: 5000,
            mpp_timeout: 60,
            payment_timeout: 60,
            no_self_hints: false,
            xpay: false,
            explicit: Vec::new(),
        }
    }
    pub fn options_json(&self) -> Value {
        let mut o = serde_json::Map::new();
        for k in &self.explicit {
            let v = match *k {
                "trampoline-cltv-delta" => json!(self.cltv_delta),
                "trampoline-policy-cltv-delta" => json!(self.policy_delta),
                "trampoline-policy-fee-base" => json!(self.fee_base),
                "trampoline-policy-fee-per-satoshi" => json!(self.fee_ppm),
                "trampoline-mpp-timeout" => json!(self.mpp_timeout),
                "trampoline-payment-timeout" => json!(self.payment_timeout),
                "trampoline-no-self-route-hints" => json!(self.no_self_hints),
                "trampoline-xpay" => json!(self.xpay),
                _ => continue,
            };
            o.insert(k.to_string(), v);
        }
        Value::Object(o)
    }
    /// Reference: must the plugin refuse to start?
    pub fn must_refuse(&self) -> bool {
        let u16ok = |v: i64| (0..=65535).contains(&v);
        let u32ok = |v: i64| (0..=u32::MAX as i64).contains(&v);
        let u64ok = |v: i64| v >= 0;
        !(u16ok(self.cltv_delta) && u16ok(self.policy_delta) && u32ok(self.fee_base) && u32ok(self.fee_ppm) && u64ok(self.mpp_timeout) && u64ok(self.payment_timeout))
            || self.policy_delta <= self.cltv_delta
    }
    pub fn label(&self) -> String {
        if self.explicit.is_empty() {
            "defaults".into()
        } else {
            self.explicit
                .iter()
                .map(|k| format!("{}={}", k.trim_start_matches("trampoline-"), self.options_json()[*k]))
                .collect::<Vec<_>>()
                .join(",")
        }
    }
}

struct Node {
    sim: Mutex<Sim>,
    pays: Mutex<Vec<Value>>,
    requests: Mutex<Vec<(String, Value)>>,
    /// scripted mode: requests (other than getinfo) wait until the script answers them
    deferred: bool,
    arrived: std::sync::Condvar,
}

fn serve(listener: UnixListener, node: Arc<Node>, stop: Arc<AtomicBool>) {
    listener.set_nonblocking(true).ok();
    while !stop.load(Ordering::Relaxed) {
        match listener.accept() {
            Ok((stream, _)) => {
                let node = Arc::clone(&node);
                std::thread::spawn(move || serve_conn(stream, node));
            }
            Err(_) => std::thread::sleep(Duration::from_millis(2)),
        }
    }
}

fn serve_conn(mut stream: UnixStream, node: Arc<Node>) {
    stream.set_nonblocking(false).ok();
    stream.set_read_timeout(Some(Duration::from_secs(20))).ok();
    let mut buf: Vec<u8> = Vec::new();
    let mut tmp = [0u8; 4096];
    loop {
        // one request per "\n\n"
        while let Some(p) = buf.windows(2).position(|w| w == b"\n\n") {
            let msg: Vec<u8> = buf.drain(..p + 2).collect();
            let req: Value = match serde_json::from_slice(&msg[..msg.len() - 2]) {
                Ok(v) => v,
                Err(_) => return,
            };
            let method = req["method"].as_str().unwrap_or("").to_string();
            let params = req["params"].clone();
            node.requests.lock().unwrap().push((method.clone(), params.clone()));
            let to_err = |e: crate::sim::SimErr| match e {
                crate::sim::SimErr::Rpc { code, message } => (code, message),
                crate::sim::SimErr::Transport(m) => (-1, m),
            };
            let result: Result<Value, (i32, String)> = if node.deferred && method != "getinfo" {
                match Method::from_name(&method) {
                    Some(m) => {
                        let rx = {
                            let mut s = node.sim.lock().unwrap();
                            let r = s.register(m, params.clone());
                            node.arrived.notify_all();
                            r
                        };
                        match rx {
                            Ok(rx) => match rx.blocking_recv() {
                                Ok(r) => r.map_err(to_err),
                                Err(_) => return, // node "crashed": drop the connection
                            },
                            Err(immediate) => immediate.map_err(to_err),
                        }
                    }
                    None => Err((-32601, format!("Unknown command '{}'", method))),
                }
            } else if method == "pay" {
                node.pays.lock().unwrap().push(params.clone());
                let bolt11 = params["bolt11"].as_str().unwrap_or("");
                let hash = bolt11
                    .parse::<lightning_invoice::Bolt11Invoice>()
                    .map(|i| hex::encode(AsRef::<[u8]>::as_ref(i.payment_hash())))
                    .unwrap_or_default();
                let pre = node.sim.lock().unwrap().preimages.get(&hash).cloned().unwrap_or_else(|| crate::sim::ZERO_PREIMAGE.to_string());
                Ok(json!({"status":"complete","amount_msat":1000,"amount_sent_msat":1000,"created_at":1.0,"parts":1,"payment_hash":hash,"payment_preimage":pre}))
            } else {
                match Method::from_name(&method) {
                    Some(m) => {
                        let mut s = node.sim.lock().unwrap();
                        s.eval(m, &params).map_err(|e| match e {
                            crate::sim::SimErr::Rpc { code, message } => (code, message),
                            crate::sim::SimErr::Transport(m) => (-1, m),
                        })
                    }
                    None => Err((-32601, format!("Unknown command '{}'", method))),
                }
            };
            let resp = match result {
                Ok(r) => json!({"jsonrpc":"2.0","id":req["id"],"result":r}),
                Err((code, message)) => json!({"jsonrpc":"2.0","id":req["id"],"error":{"code":code,"message":message}}),
            };
            let mut out = resp.to_string().into_bytes();
            out.extend_from_slice(b"\n\n");
            if stream.write_all(&out).is_err() {
                return;
            }
        }
        match stream.read(&mut tmp) {
            Ok(0) | Err(_) => return,
            Ok(n) => buf.extend_from_slice(&tmp[..n]),
        }
    }
}

pub struct Proc {
    child: Child,
    stdin: Option<ChildStdin>,
    rx: mpsc::Receiver<Value>,
    node: Arc<Node>,
    stop: Arc<AtomicBool>,
    dir: PathBuf,
    next_id: u64,
    pub stderr_tail: Arc<Mutex<String>>,
}

static DIR_COUNTER: AtomicU64 = AtomicU64::new(0);

impl Proc {
    pub fn start(log_trace: bool) -> Result<Proc, String> {
        Self::start_with(log_trace, None)
    }

    /// `scripted`: Some(sim) = deferred mode, the caller answers requests through the sim.
    pub fn start_with(log_trace: bool, scripted: Option<Sim>) -> Result<Proc, String> {
        let dir = PathBuf::from(format!("/verif/.work/e2e-{}-{}", std::process::id(), DIR_COUNTER.fetch_add(1, Ordering::Relaxed)));
        let _ = std::fs::remove_dir_all(&dir);
        std::fs::create_dir_all(&dir).map_err(|e| e.to_string())?;
        let sock = dir.join("lightning-rpc");
        let listener = UnixListener::bind(&sock).map_err(|e| format!("bind {:?}: {}", sock, e))?;
        let deferred = scripted.is_some();
        let sim = match scripted {
            Some(s) => s,
            None => {
                let mut sim = Sim::new(common::local_pubkey().to_string());
                sim.immediate = true;
                sim.height = 800_000;
                for tag in 1..=4u8 {
                    let pre = common::preimage(tag);
                    sim.preimages.insert(common::hash_hex(&pre), hex::encode(pre));
                }
                sim
            }
        };
        let node = Arc::new(Node {
            sim: Mutex::new(sim),
            pays: Mutex::new(Vec::new()),
            requests: Mutex::new(Vec::new()),
            deferred,
            arrived: std::sync::Condvar::new(),
        });
        let stop = Arc::new(AtomicBool::new(false));
        {
            let (n, s) = (Arc::clone(&node), Arc::clone(&stop));
            std::thread::spawn(move || serve(listener, n, s));
        }
        let mut cmd = Command::new(binary());
        cmd.current_dir(&dir).stdin(Stdio::piped()).stdout(Stdio::piped()).stderr(Stdio::piped());
        cmd.env_remove("RUST_LOG");
        if log_trace {
            cmd.env("CLN_PLUGIN_LOG", "trace");
        }
        cmd.env("AWS_EC2_METADATA_DISABLED", "true");
        let mut child = cmd.spawn().map_err(|e| format!("spawn {}: {}", binary(), e))?;
        let stdout = child.stdout.take().unwrap();
        let stderr = child.stderr.take().unwrap();
        let (tx, rx) = mpsc::channel();
        std::thread::spawn(move || {
            let mut r = BufReader::new(stdout);
            let mut buf: Vec<u8> = Vec::new();
            let mut tmp = [0u8; 4096];
            loop {
                match r.read(&mut tmp) {
                    Ok(0) | Err(_) => return,
                    Ok(n) => buf.extend_from_slice(&tmp[..n]),
                }
                while let Some(p) = buf.windows(2).position(|w| w == b"\n\n") {
                    let msg: Vec<u8> = buf.drain(..p + 2).collect();
                    match serde_json::from_slice::<Value>(&msg[..msg.len() - 2]) {
                        Ok(v) => {
                            if tx.send(v).is_err() {
                                return;
                            }
                        }
                        Err(_) => {
                            let _ = tx.send(json!({"__unparsable": String::from_utf8_lossy(&msg).to_string()}));
                        }
                    }
                }
            }
        });
        let stderr_tail = Arc::new(Mutex::new(String::new()));
        {
            let t = Arc::clone(&stderr_tail);
            std::thread::spawn(move || {
                let r = BufReader::new(stderr);
                for l in r.lines().map_while(Result::ok) {
                    let mut g = t.lock().unwrap();
                    g.push_str(&l);
                    g.push('\n');
                    if g.len() > 4000 {
                        let cut = g.len() - 4000;
                        g.drain(..cut);
                    }
                }
            });
        }
        let stdin = child.stdin.take();
        Ok(Proc {
            child,
            stdin,
            rx,
            node,
            stop,
            dir,
            next_id: 100,
            stderr_tail,
        })
    }

    pub fn send(&mut self, v: &Value) -> bool {
        let mut b = v.to_string().into_bytes();
        b.extend_from_slice(b"\n\n");
        match self.stdin.as_mut() {
            Some(s) => s.write_all(&b).and_then(|_| s.flush()).is_ok(),
            None => false,
        }
    }

    /// Wait for the reply with this id (log notifications are skipped).
    pub fn wait_reply(&mut self, id: &Value, timeout: Duration) -> Option<Value> {
        let deadline = Instant::now() + timeout;
        loop {
            let left = deadline.checked_duration_since(Instant::now())?;
            match self.rx.recv_timeout(left) {
                Ok(v) => {
                    if v.get("id") == Some(id) {
                        return Some(v);
                    }
                }
                Err(_) => return None,
            }
        }
    }

    pub fn exited(&mut self, timeout: Duration) -> Option<i32> {
        let deadline = Instant::now() + timeout;
        loop {
            match self.child.try_wait() {
                Ok(Some(st)) => return Some(st.code().unwrap_or(-1)),
                Ok(None) => {
                    if Instant::now() > deadline {
                        return None;
                    }
                    std::thread::sleep(Duration::from_millis(5));
                }
                Err(_) => return Some(-2),
            }
        }
    }

    /// Handshake. Ok(true) = started (init acknowledged); Ok(false) = refused (exited without acknowledging).
    pub fn handshake(&mut self, options: &Value) -> Result<bool, String> {
        let id = json!("gm-1");
        if !self.send(&json!({"jsonrpc":"2.0","id":id,"method":"getmanifest","params":{"allow-deprecated-apis":false}})) {
            return Err("cannot write getmanifest".into());
        }
        let manifest = self.wait_reply(&id, Duration::from_secs(20)).ok_or_else(|| format!("no getmanifest reply; stderr: {}", self.stderr_tail.lock().unwrap()))?;
        let hooks = manifest["result"]["hooks"].to_string();
        if !hooks.contains("htlc_accepted") {
            return Err(format!("manifest lacks the htlc_accepted hook: {}", manifest));
        }
        let id = json!(2);
        let init = json!({"jsonrpc":"2.0","id":id,"method":"init","params":{
            "options": options,
            "configuration": {"lightning-dir": self.dir.to_string_lossy(), "rpc-file": "lightning-rpc", "startup": true, "network": "regtest",
                "feature_set": {"init":"02aaa2","node":"8000000002aaa2","channel":"","invoice":"028200"}}
        }});
        if !self.send(&init) {
            return Err("cannot write init".into());
        }
        // either the init reply or process exit
        let deadline = Instant::now() + Duration::from_secs(20);
        loop {
            if let Ok(v) = self.rx.recv_timeout(Duration::from_millis(20)) {
                if v.get("id") == Some(&id) {
                    if v["result"].get("disable").map(|d| !d.is_null()).unwrap_or(false) {
                        return Ok(false);
                    }
                    return Ok(true);
                }
            }
            if let Ok(Some(_)) = self.child.try_wait() {
                // drain anything that was written before exit
                while let Ok(v) = self.rx.recv_timeout(Duration::from_millis(50)) {
                    if v.get("id") == Some(&id) && !v["result"].get("disable").map(|d| !d.is_null()).unwrap_or(false) {
                        return Ok(true);
                    }
                }
                return Ok(false);
            }
            if Instant::now() > deadline {
                return Err(format!("neither init reply nor exit within 20 s; stderr: {}", self.stderr_tail.lock().unwrap()));
            }
        }
    }

    pub fn htlc(&mut self, spec: &HtlcSpec) -> Value {
        self.next_id += 1;
        let id = json!(self.next_id);
        let req = json!({"jsonrpc":"2.0","id":id,"method":"htlc_accepted","params": spec.request_json(800_000)});
        self.send(&req);
        id
    }

    pub fn pays(&self) -> Vec<Value> {
        self.node.pays.lock().unwrap().clone()
    }
}

impl Drop for Proc {
    fn drop(&mut self) {
        self.stdin.take();
        let _ = self.child.kill();
        let _ = self.child.wait();
        self.stop.store(true, Ordering::Relaxed);
        let _ = std::fs::remove_dir_all(&self.dir);
    }
}

fn htlc_for(inv: &InvoiceSpec, id: u64, amount: u64, total: u64, expiry: u32) -> HtlcSpec {
    let bolt11 = common::build_invoice(inv);
    HtlcSpec {
        name: format!("e{}", id),
        id,
        payment_hash: AsRef::<[u8]>::as_ref(&common::hash_of(&common::preimage(inv.preimage_tag))).to_vec(),
        amount_msat: amount,
        cltv_expiry: expiry,
        cltv_expiry_relative: None,
        forward_msat: Some(amount),
        total_msat: Some(total),
        forward_scid: false,
        metadata: Some(common::metadata(Some(bolt11.as_bytes()), None)),
        extra_records: vec![(2, common::tu64(amount))],
    }
}

fn amt(v: &Value) -> Option<u64> {
    crate::engine_w::amt(v)
}

/// Run one configuration against the real binary. Returns (violations, outcome description).
pub fn run_config(cfg: &Config, probe_timeout: bool) -> Result<(Vec<Violation>, String), String> {
    let mut vs: Vec<Violation> = Vec::new();
    let mut p = Proc::start(false)?;
    let started = p.handshake(&cfg.options_json())?;
    let must_refuse = cfg.must_refuse();
    let label = cfg.label();
    if started && must_refuse {
        vs.push(Violation {
            property: "C19",
            clause: "refuse-invalid",
            shape: format!(
                "plugin started although the configuration is invalid ({})",
                if cfg.policy_delta <= cfg.cltv_delta && (0..=65535).contains(&cfg.policy_delta) && (0..=65535).contains(&cfg.cltv_delta) {
                    "policy CLTV delta not greater than the safety delta"
                } else {
                    "a value does not fit its type"
                }
            ),
            detail: label.clone(),
        });
        return Ok((vs, "started-but-invalid".into()));
    }
    if !started {
        if !must_refuse {
            vs.push(Violation {
                property: "C19",
                clause: "accept-valid",
                shape: "plugin refused to start with a valid configuration".into(),
                detail: format!("{} ; stderr: {}", label, p.stderr_tail.lock().unwrap().lines().last().unwrap_or("")),
            });
        }
        return Ok((vs, "refused".into()));
    }
    let base = cfg.fee_base as u128;
    let ppm = cfg.fee_ppm as u128;
    let amount: u64 = 1_000_000;
    let need = (amount as u128 + base + amount as u128 * ppm / 1_000_000) as u64;
    let pd = cfg.policy_delta as u32;
    // (a) under-declared first HTLC -> fee-or-expiry-insufficient carrying exactly the configured policy
    if cfg.mpp_timeout > 0 {
        let spec = htlc_for(&InvoiceSpec::fixed(1, amount), 1, 400_000, need - 1, 800_000 + pd + 10);
        let id = p.htlc(&spec);
        match p.wait_reply(&id, Duration::from_secs(10)) {
            Some(r) => {
                let mut want = String::from("201a");
                want.push_str(&hex::encode((cfg.fee_base as u32).to_be_bytes()));
                want.push_str(&hex::encode((cfg.fee_ppm as u32).to_be_bytes()));
                want.push_str(&hex::encode((cfg.policy_delta as u16).to_be_bytes()));
                let got = r["result"]["failure_message"].as_str().unwrap_or("").to_string();
                if r["result"]["result"] != "fail" || got != want {
                    vs.push(Violation {
                        property: "C19",
                        clause: "policy-advertised",
                        shape: "under-declared HTLC not failed with exactly the configured (base, ppm, CLTV delta)".into(),
                        detail: format!("{} : got {} want fail {}", label, r["result"], want),
                    });
                }
            }
            None => vs.push(Violation {
                property: "C19",
                clause: "policy-advertised",
                shape: "under-declared HTLC not answered within 10 s".into(),
                detail: label.clone(),
            }),
        }
    }
    // (b) funded HTLC -> pay with the configured retry time and safety margin
    // (with an MPP timeout of zero the plugin fails every set the moment it has read the stored state,
    //  complete or not; that is the configured value applied literally, so nothing is paid)
    if cfg.mpp_timeout > 0 {
        let expiry = 800_000 + pd + 10;
        let spec = htlc_for(&InvoiceSpec::fixed(2, amount), 2, need, need, expiry);
        let id = p.htlc(&spec);
        match p.wait_reply(&id, Duration::from_secs(10)) {
            Some(r) => {
                let pays = p.pays();
                if r["result"]["result"] != "resolve" || pays.is_empty() {
                    vs.push(Violation {
                        property: "C19",
                        clause: "applies-config",
                        shape: "a fully funded HTLC under the configured policy was not paid and settled".into(),
                        detail: format!("{} : {} pays {}", label, r["result"], pays.len()),
                    });
                } else {
                    let pay = &pays[pays.len() - 1];
                    let want_retry = (cfg.payment_timeout as u64).min(65535);
                    let want_delay = ((expiry as i64 - 800_000 - cfg.cltv_delta).max(0) as u64).min(cfg.policy_delta as u64);
                    if pay["retry_for"].as_u64() != Some(want_retry) {
                        vs.push(Violation {
                            property: "C19",
                            clause: "retry-time",
                            shape: "pay retry_for differs from min(configured payment timeout, 65535)".into(),
                            detail: format!("{} : retry_for {} want {}", label, pay["retry_for"], want_retry),
                        });
                    }
                    if pay["maxdelay"].as_u64() != Some(want_delay) {
                        vs.push(Violation {
                            property: "C19",
                            clause: "safety-margin",
                            shape: "pay maxdelay differs from min(expiry - height - configured safety delta, policy delta)".into(),
                            detail: format!("{} : maxdelay {} want {}", label, pay["maxdelay"], want_delay),
                        });
                    }
                    if amt(&pay["maxfee"]) != Some(need - amount) {
                        vs.push(Violation {
                            property: "C19",
                            clause: "policy-enforced",
                            shape: "fee budget differs from what the configured policy leaves".into(),
                            detail: format!("{} : maxfee {} want {}", label, pay["maxfee"], need - amount),
                        });
                    }
                    let has_label = pay.get("label").map(|l| !l.is_null()).unwrap_or(false);
                    if cfg.xpay == has_label {
                        vs.push(Violation {
                            property: "C19",
                            clause: "xpay-flag",
                            shape: "xpay option not applied (label / riskfactor are only sent without xpay)".into(),
                            detail: format!("{} : pay {}", label, pay),
                        });
                    }
                }
            }
            None => vs.push(Violation {
                property: "C19",
                clause: "applies-config",
                shape: "funded HTLC not answered within 10 s".into(),
                detail: label.clone(),
            }),
        }
    }
    // (c) funded by exactly one msat less under the configured policy: must not be paid
    //     and (timeout probe) must be failed after the configured MPP timeout
    if probe_timeout {
        let spec = htlc_for(&InvoiceSpec::fixed(3, amount), 3, need - 1, need, 800_000 + pd + 10);
        let t0 = Instant::now();
        let id = p.htlc(&spec);
        let before = p.pays().len();
        let (lo, hi, wait) = match cfg.mpp_timeout {
            0 => (0.0, 2.5, 3.0),
            1 => (0.9, 4.5, 5.0),
            2 => (1.9, 5.5, 6.0),
            _ => (f64::INFINITY, f64::INFINITY, 2.5),
        };
        let r = p.wait_reply(&id, Duration::from_secs_f64(wait));
        let dt = t0.elapsed().as_secs_f64();
        match r {
            Some(r) => {
                if r["result"]["result"] != "fail" || r["result"]["failure_message"] != "2019" || dt < lo || dt > hi {
                    vs.push(Violation {
                        property: "C19",
                        clause: "mpp-timeout",
                        shape: "underfunded HTLC not failed with temporary trampoline failure at the configured MPP timeout".into(),
                        detail: format!("{} : {} after {:.2}s (expected window {:.1}..{:.1}s)", label, r["result"], dt, lo, hi),
                    });
                }
            }
            None => {
                if lo.is_finite() {
                    vs.push(Violation {
                        property: "C19",
                        clause: "mpp-timeout",
                        shape: "underfunded HTLC still held well after the configured MPP timeout".into(),
                        detail: format!("{} : nothing after {:.2}s", label, dt),
                    });
                }
            }
        }
        if p.pays().len() != before {
            vs.push(Violation {
                property: "C19",
                clause: "policy-enforced",
                shape: "an HTLC one msat short of amount + configured fee was paid".into(),
                detail: label.clone(),
            });
        }
    }
    // (d) self route hint flag
    if cfg.mpp_timeout > 0 || cfg.no_self_hints {
        let inv = InvoiceSpec::fixed(4, amount).with_hint(Hint::SelfLast);
        let spec = htlc_for(&inv, 4, need, need, 800_000 + pd + 10);
        let id = p.htlc(&spec);
        match p.wait_reply(&id, Duration::from_secs(10)) {
            Some(r) => {
                let kind = r["result"]["result"].as_str().unwrap_or("").to_string();
                let ok = if cfg.no_self_hints { kind == "fail" && r["result"]["failure_message"] == "2002" } else { kind == "resolve" };
                if !ok {
                    vs.push(Violation {
                        property: "C19",
                        clause: "self-hint-flag",
                        shape: "self-route-hint flag not honoured".into(),
                        detail: format!("{} : {}", label, r["result"]),
                    });
                }
            }
            None => vs.push(Violation {
                property: "C19",
                clause: "self-hint-flag",
                shape: "self-route-hint HTLC not answered within 10 s".into(),
                detail: label.clone(),
            }),
        }
    }
    Ok((vs, "started".into()))
}

fn menu(name: &str) -> Vec<i64> {
    match name {
        "trampoline-cltv-delta" | "trampoline-policy-cltv-delta" => vec![-1, 0, 1, 34, 1008, 65535, 65536, (1 << 32) - 1, 1 << 32, i64::MAX],
        "trampoline-policy-fee-base" | "trampoline-policy-fee-per-satoshi" => vec![-1, 0, 1, 5000, 65536, (1 << 32) - 1, 1 << 32, i64::MAX],
        "trampoline-mpp-timeout" => vec![-1, 0, 1, 60, 65536, i64::MAX],
        "trampoline-payment-timeout" => vec![-1, 0, 1, 7, 65535, 65536, 1 << 32, i64::MAX],
        _ => vec![0, 1],
    }
}

const OPTS: [&str; 8] = [
    "trampoline-cltv-delta",
    "trampoline-policy-cltv-delta",
    "trampoline-policy-fee-base",
    "trampoline-policy-fee-per-satoshi",
    "trampoline-mpp-timeout",
    "trampoline-payment-timeout",
    "trampoline-no-self-route-hints",
    "trampoline-xpay",
];

fn set(cfg: &mut Config, opt: &'static str, v: i64) {
    match opt {
        "trampoline-cltv-delta" => cfg.cltv_delta = v,
        "trampoline-policy-cltv-delta" => cfg.policy_delta = v,
        "trampoline-policy-fee-base" => cfg.fee_base = v,
        "trampoline-policy-fee-per-satoshi" => cfg.fee_ppm = v,
        "trampoline-mpp-timeout" => cfg.mpp_timeout = v,
        "trampoline-payment-timeout" => cfg.payment_timeout = v,
        "trampoline-no-self-route-hints" => cfg.no_self_hints = v != 0,
        "trampoline-xpay" => cfg.xpay = v != 0,
        _ => {}
    }
    if !cfg.explicit.contains(&opt) {
        cfg.explicit.push(opt);
    }
}

pub fn configs(thorough: bool) -> Vec<Config> {
    let mut out: Vec<Config> = vec![Config::default()];
    for o in OPTS {
        for v in menu(o) {
            let mut c = Config::default();
            set(&mut c, o, v);
            out.push(c);
        }
    }
    // full square of the two deltas
    for a in menu("trampoline-cltv-delta") {
        for b in menu("trampoline-policy-cltv-delta") {
            let mut c = Config::default();
            set(&mut c, "trampoline-cltv-delta", a);
            set(&mut c, "trampoline-policy-cltv-delta", b);
            out.push(c);
        }
    }
    // swapped / equal deltas and the timeout pair that distinguishes the two timeouts
    for (a, b) in [(1008i64, 34i64), (100, 100), (99, 100), (100, 99)] {
        let mut c = Config::default();
        set(&mut c, "trampoline-cltv-delta", a);
        set(&mut c, "trampoline-policy-cltv-delta", b);
        out.push(c);
    }
    {
        let mut c = Config::default();
        set(&mut c, "trampoline-mpp-timeout", 1);
        set(&mut c, "trampoline-payment-timeout", 7);
        out.push(c);
        let mut c = Config::default();
        set(&mut c, "trampoline-mpp-timeout", 2);
        set(&mut c, "trampoline-payment-timeout", 1);
        out.push(c);
    }
    if thorough {
        for (i, o1) in OPTS.iter().enumerate() {
            for o2 in OPTS.iter().skip(i + 1) {
                if *o1 == "trampoline-cltv-delta" && *o2 == "trampoline-policy-cltv-delta" {
                    continue;
                }
                for v1 in menu(o1) {
                    for v2 in menu(o2) {
                        let mut c = Config::default();
                        set(&mut c, o1, v1);
                        set(&mut c, o2, v2);
                        out.push(c);
                    }
                }
            }
        }
    }
    out.dedup_by(|a, b| a == b);
    out
}

pub fn run(thorough: bool, threads: usize, name: &'static str) -> JobResult {
    let mut result = JobResult {
        name: name.to_string(),
        engine: "E".into(),
        level_completed: 0,
        exhaustive: true,
        ..Default::default()
    };
    if !Path::new(&binary()).exists() {
        result.error = Some(format!("{} not built", binary()));
        return result;
    }
    let cfgs = configs(thorough);
    let queue: Mutex<Vec<(usize, Config)>> = Mutex::new(cfgs.iter().cloned().enumerate().rev().collect());
    let found: Mutex<Vec<FoundAny>> = Mutex::new(Vec::new());
    let errors: Mutex<Vec<String>> = Mutex::new(Vec::new());
    let started = AtomicU64::new(0);
    let refused = AtomicU64::new(0);
    std::thread::scope(|s| {
        for _ in 0..threads.max(1).min(16) {
            s.spawn(|| loop {
                let job = queue.lock().unwrap().pop();
                let (i, cfg) = match job {
                    Some(j) => j,
                    None => return,
                };
                // the (real-time) timeout probe only where the MPP timeout is the subject
                let probe_timeout = cfg.explicit.contains(&"trampoline-mpp-timeout") && cfg.explicit.len() <= 2 && !cfg.explicit.contains(&"trampoline-cltv-delta");
                let mut attempt = 0;
                loop {
                    attempt += 1;
                    match run_config(&cfg, probe_timeout) {
                        Ok((vs, outcome)) => {
                            if outcome == "started" {
                                started.fetch_add(1, Ordering::Relaxed);
                            } else {
                                refused.fetch_add(1, Ordering::Relaxed);
                            }
                            let mut f = found.lock().unwrap();
                            for v in vs {
                                if !f.iter().any(|x| x.violation.signature() == v.signature()) {
                                    f.push(FoundAny {
                                        violation: v,
                                        cost: cfg.explicit.len() as u32,
                                        replay: json!({"engine":"E","scenario":name,"config": cfg.options_json(), "index": i}),
                                    });
                                }
                            }
                            break;
                        }
                        Err(e) => {
                            if attempt >= 2 {
                                errors.lock().unwrap().push(format!("{}: {}", cfg.label(), e));
                                break;
                            }
                        }
                    }
                }
            });
        }
    });
    let errs = errors.into_inner().unwrap();
    if !errs.is_empty() {
        result.error = Some(errs.join(" ;; "));
    }
    result.found = found.into_inner().unwrap();
    result.evaluations = cfgs.len() as u64;
    result.nontrivial = cfgs.iter().filter(|c| !c.explicit.is_empty()).count() as u64;
    result.extra.insert("started".into(), json!(started.load(Ordering::Relaxed)));
    result.extra.insert("refused".into(), json!(refused.load(Ordering::Relaxed)));
    result.rule = Some(format!(
        "engine E: the real trampoline binary (cargo build of /repo, guard off), one process per configuration, real stdin/stdout handshake and a real unix socket served by the simulated node; configurations = defaults, every option at every menu value alone (integers: -1, 0, 1, default, 65535/65536, 2^32-1, 2^32, i64::MAX where meaningful; both flags), the full 10x10 square of the two CLTV deltas, swapped/equal deltas, the timeout pairs (1 s, 7 s) and (2 s, 1 s){}; reference: refuse iff a value does not fit u16/u32/u64 or policy delta <= safety delta; if started: under-declared HTLC failed with exactly (base, ppm, delta), funded HTLC paid with retry_for = min(payment timeout, 65535), maxdelay = min(expiry - height - safety, policy delta), maxfee = held - amount, xpay flag, self-hint flag; real-time MPP-timeout probe where the MPP timeout is the subject. Non-trivial = at least one non-default option",
        if thorough { ", every pair of options at every pair of menu values" } else { "" }
    ));
    result.samples = cfgs.iter().skip(3).step_by((cfgs.len() / 3).max(1)).take(3).map(|c| json!({"options": c.options_json(), "must_refuse": c.must_refuse()})).collect();
    result
}

/// Replay of one configuration (used by `check replay`).
pub fn replay(options: &Value) -> Result<Vec<Violation>, String> {
    let mut cfg = Config::default();
    if let Some(o) = options.as_object() {
        for (k, v) in o {
            if let Some(opt) = OPTS.iter().find(|x| **x == k.as_str()) {
                let iv = v.as_i64().unwrap_or_else(|| if v.as_bool().unwrap_or(false) { 1 } else { 0 });
                set(&mut cfg, opt, iv);
            }
        }
    }
    let probe = cfg.explicit.contains(&"trampoline-mpp-timeout");
    run_config(&cfg, probe).map(|r| r.0)
}


// ------------------------------------------------------------------ conformance replay of engine-W histories

/// Replays explored engine-W histories of a sequential scenario against the real binary: same events, in the
/// same order, through real pipes and the real socket; the requests the binary sends and the responses it gives
/// must equal the in-process observation log (wall-clock stamps normalised).
pub fn conformance(thorough: bool, threads: usize, name: &'static str) -> JobResult {
    use crate::engine_w::{normalise_stamps, WCfg, W};
    use crate::explore::Model;
    let mut result = JobResult {
        name: name.to_string(),
        engine: "E".into(),
        level_completed: 0,
        exhaustive: true,
        ..Default::default()
    };
    if !Path::new(&binary()).exists() {
        result.error = Some(format!("{} not built", binary()));
        return result;
    }
    let scenarios: Vec<WCfg> = vec![
        {
            let mut c = crate::scen::s_life("S-life/1htlc", false, false, false);
            c.mpp_timeout_ms = 60_000;
            c
        },
        crate::scen::s_life("S-life/2htlc", true, false, false),
    ];
    let replayable = |l: &str| {
        !(l.starts_with("Advance") || l.starts_with("Crash") || l.starts_with("Stall") || l.starts_with("Select") || l.starts_with("Block") || l.starts_with("Height") || l.contains(",transport)") || l.contains("transport-error"))
    };
    // candidate histories: the default path and every single replayable deviation along it (and, thorough, pairs)
    let mut jobs: Vec<(std::sync::Arc<WCfg>, Vec<String>)> = Vec::new();
    for c in scenarios {
        let cfg = crate::scen::with_props(c, &[]);
        let mut hists: Vec<Vec<String>> = vec![vec![]];
        let depth = if thorough { 2 } else { 1 };
        let mut frontier: Vec<Vec<String>> = vec![vec![]];
        for _ in 0..depth {
            let mut next = Vec::new();
            for prefix in &frontier {
                // walk the default continuation of `prefix`, branching once at every point
                let mut m = match crate::explore::replay_labels::<W>(&cfg, prefix, false) {
                    Ok(m) => m,
                    Err(_) => continue,
                };
                let mut path = prefix.clone();
                loop {
                    let en = m.enabled();
                    if en.is_empty() || en[0].cost > 0 {
                        break;
                    }
                    for alt in en.iter().skip(1) {
                        if replayable(&alt.label) {
                            let mut h = path.clone();
                            h.push(alt.label.clone());
                            next.push(h);
                        }
                    }
                    if !replayable(&en[0].label) {
                        break;
                    }
                    path.push(en[0].label.clone());
                    m.apply(0);
                }
            }
            hists.extend(next.iter().cloned());
            frontier = next;
        }
        for h in hists {
            jobs.push((cfg.clone(), h));
        }
    }
    let total = jobs.len();
    let queue: Mutex<Vec<(std::sync::Arc<WCfg>, Vec<String>)>> = Mutex::new(jobs);
    let found: Mutex<Vec<FoundAny>> = Mutex::new(Vec::new());
    let errors: Mutex<Vec<String>> = Mutex::new(Vec::new());
    let validated = AtomicU64::new(0);
    let skipped = AtomicU64::new(0);
    let samples: Mutex<Vec<Value>> = Mutex::new(Vec::new());
    std::thread::scope(|s| {
        for _ in 0..threads.max(1).min(12) {
            s.spawn(|| loop {
                let job = queue.lock().unwrap().pop();
                let (cfg, prefix) = match job {
                    Some(j) => j,
                    None => return,
                };
                // in-process reference run
                let w: W = match crate::explore::replay_labels::<W>(&cfg, &prefix, true) {
                    Ok(w) => w,
                    Err(e) => {
                        errors.lock().unwrap().push(e);
                        continue;
                    }
                };
                let history = w.history_labels();
                if !history.iter().all(|l| replayable(l)) {
                    skipped.fetch_add(1, Ordering::Relaxed);
                    continue;
                }
                let expected = w.observations();
                let expect_req = expected.iter().filter(|l| l.starts_with("req ")).count();
                let expect_resp = expected.iter().filter(|l| l.starts_with("resp ")).count();
                match replay_on_binary(&cfg, &history, expect_req, expect_resp) {
                    Ok(actual) => {
                        let exp_req: Vec<String> = expected.iter().filter(|l| l.starts_with("req ")).map(|l| normalise_long_numbers(l)).collect();
                        let act_req: Vec<String> = actual.iter().filter(|l| l.starts_with("req ")).map(|l| normalise_long_numbers(l)).collect();
                        let mut exp_resp: Vec<String> = expected.iter().filter(|l| l.starts_with("resp ")).cloned().collect();
                        let mut act_resp: Vec<String> = actual.iter().filter(|l| l.starts_with("resp ")).cloned().collect();
                        exp_resp.sort();
                        act_resp.sort();
                        // requests the plugin issues concurrently reach the real node in either order: compare
                        // the requests as a multiset (labels are numbered per method and hash, so a request that is
                        // issued earlier or later than in-process still shows up as a different label)
                        let (mut exp_req, mut act_req) = (exp_req, act_req);
                        exp_req.sort();
                        act_req.sort();
                        if exp_req != act_req || exp_resp != act_resp {
                            let i = exp_req.iter().zip(act_req.iter()).position(|(a, b)| a != b);
                            found.lock().unwrap().push(FoundAny {
                                violation: Violation {
                                    property: "CONFORMANCE",
                                    clause: "binary-equals-in-process",
                                    shape: "the real binary's requests/responses differ from the in-process run of the same history".into(),
                                    detail: format!(
                                        "history {:?}; first differing request {:?}: in-process {:?} binary {:?}; responses in-process {:?} binary {:?}",
                                        history,
                                        i,
                                        i.and_then(|i| exp_req.get(i)).map(|s| s.chars().take(160).collect::<String>()),
                                        i.and_then(|i| act_req.get(i)).map(|s| s.chars().take(160).collect::<String>()),
                                        exp_resp,
                                        act_resp
                                    ),
                                },
                                cost: 0,
                                replay: json!({"engine":"E","scenario":name,"history":history}),
                            });
                        } else {
                            let n = validated.fetch_add(1, Ordering::Relaxed);
                            if n < 2 {
                                samples.lock().unwrap().push(json!({"scenario": cfg.name, "history": history, "binary_observations": actual.iter().map(|l| l.chars().take(140).collect::<String>()).collect::<Vec<_>>()}));
                            }
                        }
                    }
                    Err(e) => errors.lock().unwrap().push(format!("{:?}: {}", history, e)),
                }
                let _ = normalise_stamps;
            });
        }
    });
    let errs = errors.into_inner().unwrap();
    if !errs.is_empty() {
        result.error = Some(errs.into_iter().take(3).collect::<Vec<_>>().join(" ;; "));
    }
    // a disagreement between the binary and the in-process run is a problem of the machinery's binding (or of
    // the glue code outside the explored seam); it is never a verdict on the property being checked
    let mism = found.into_inner().unwrap();
    if let Some(f) = mism.first() {
        result.error = Some(format!("conformance: {} :: {}", f.violation.shape, f.violation.detail.chars().take(900).collect::<String>()));
    }
    result.samples = samples.into_inner().unwrap();
    result.extra.insert("histories_considered".into(), json!(total));
    result.extra.insert("validated_against_binary".into(), json!(validated.load(Ordering::Relaxed)));
    result.extra.insert("skipped_not_replayable".into(), json!(skipped.load(Ordering::Relaxed)));
    result.evaluations = validated.load(Ordering::Relaxed);
    result.nontrivial = validated.load(Ordering::Relaxed).saturating_sub(2);
    result.rule = Some("conformance: the default history and every history with one (thorough: two) replayable deviation(s) of S-life/1htlc and S-life/2htlc (reordered deliveries, pay endings, part failures, rejected / applied-but-failed writes; not time, crashes, stalls or transport faults) are replayed against the real trampoline binary over real pipes and a real unix socket with the node's answers scripted in the same order; the binary's RPC requests (method, arguments) and hook responses must equal the in-process log".into());
    result
}

fn normalise_long_numbers(s: &str) -> String {
    let mut out = String::new();
    let mut run = String::new();
    for c in s.chars().chain(std::iter::once(' ')) {
        if c.is_ascii_digit() {
            run.push(c);
        } else {
            if run.len() >= 10 {
                out.push_str("<n>");
            } else {
                out.push_str(&run);
            }
            run.clear();
            out.push(c);
        }
    }
    out.pop();
    out
}

/// Drive the real binary through `history`; returns its observation log in the format of W::observations().
fn drain_responses(p: &mut Proc, ids: &[(Value, String)], obs: &mut Vec<String>) {
    while let Ok(v) = p.rx.try_recv() {
        if let Some((_, name)) = ids.iter().find(|(id, _)| v.get("id") == Some(id)) {
            let r = &v["result"];
            let rs = match r["result"].as_str() {
                Some("continue") => match r.get("payload").and_then(|x| x.as_str()) {
                    Some(pl) => format!("continue:{}", pl),
                    None => "continue".to_string(),
                },
                Some("fail") => format!("fail:{}", r["failure_message"].as_str().unwrap_or("")),
                Some("resolve") => format!("resolve:{}", r["payment_key"].as_str().unwrap_or("")),
                _ => format!("?{}", v),
            };
            obs.push(format!("resp {} {}", name, rs));
        }
    }
}

fn replay_on_binary(cfg: &crate::engine_w::WCfg, history: &[String], expect_req: usize, expect_resp: usize) -> Result<Vec<String>, String> {
    use crate::engine_w::{normalise_stamps, resp_string};
    let mut sim = Sim::new(common::local_pubkey().to_string());
    sim.height = cfg.start_height;
    for (h, p) in &cfg.preimages {
        sim.preimages.insert(h.clone(), p.clone());
    }
    let mut p = Proc::start_with(false, Some(sim))?;
    let mut opts = serde_json::Map::new();
    opts.insert("trampoline-cltv-delta".into(), json!(cfg.safety_delta));
    opts.insert("trampoline-policy-cltv-delta".into(), json!(cfg.policy_delta));
    opts.insert("trampoline-policy-fee-base".into(), json!(cfg.fee_base));
    opts.insert("trampoline-policy-fee-per-satoshi".into(), json!(cfg.fee_ppm));
    opts.insert("trampoline-mpp-timeout".into(), json!(cfg.mpp_timeout_ms / 1000));
    opts.insert("trampoline-payment-timeout".into(), json!(cfg.payment_timeout_s));
    if !p.handshake(&Value::Object(opts))? {
        return Err("binary refused to start".into());
    }
    let mut ids: Vec<(Value, String)> = Vec::new();
    let mut obs: Vec<String> = Vec::new();
    let wait_pending = |p: &Proc, label: &str| -> Result<u64, String> {
        let deadline = Instant::now() + Duration::from_secs(10);
        let mut g = p.node.sim.lock().unwrap();
        loop {
            if let Some(x) = g.pending.iter().find(|x| x.label == label) {
                return Ok(x.id);
            }
            let left = deadline.checked_duration_since(Instant::now()).ok_or_else(|| format!("request {} never arrived; pending {:?}", label, g.pending.iter().map(|x| x.label.clone()).collect::<Vec<_>>()))?;
            g = p.node.arrived.wait_timeout(g, left.min(Duration::from_millis(50))).unwrap().0;
        }
    };
    for l in history {
        if let Some(name) = l.strip_prefix("Deliver(").and_then(|x| x.strip_suffix(')')) {
            let t = cfg.templates.iter().find(|t| t.spec.name == name).ok_or("unknown template")?;
            let height = p.node.sim.lock().unwrap().height;
            p.next_id += 1;
            let id = json!(p.next_id);
            let req = json!({"jsonrpc":"2.0","id":id,"method":"htlc_accepted","params": t.spec.request_json(height)});
            p.send(&req);
            ids.push((id, name.to_string()));
        } else if let Some(label) = l.strip_prefix("Answer(").and_then(|x| x.strip_suffix(')')) {
            let id = wait_pending(&p, label)?;
            let _ = p.node.sim.lock().unwrap().answer_ok(id);
        } else if let Some(rest) = l.strip_prefix("Fault(").and_then(|x| x.strip_suffix(')')) {
            let (label, kind) = rest.rsplit_once(',').ok_or("bad fault label")?;
            let id = wait_pending(&p, label)?;
            let applied = kind == "applied-but-error";
            // in-process the applied-but-error flavour is a transport error; over the socket it is an error object
            let _ = p.node.sim.lock().unwrap().answer_fault(id, applied, crate::sim::SimErr::rpc(-32603, "datastore: database error"));
        } else if l.starts_with("PaySpawnPart(") || l.starts_with("PayEnd(") || l.starts_with("Part(") {
            // the pay request must have arrived before the node acts on it
            let deadline = Instant::now() + Duration::from_secs(10);
            loop {
                let mut g = p.node.sim.lock().unwrap();
                let done = apply_node_event(&mut g, l, cfg)?;
                drop(g);
                if done {
                    break;
                }
                if Instant::now() > deadline {
                    return Err(format!("node event {} never became applicable", l));
                }
                std::thread::sleep(Duration::from_millis(5));
            }
        } else {
            return Err(format!("event {} is not replayable", l));
        }
        // collect whatever the plugin has answered so far (the next scripted step waits for what it needs)
        drain_responses(&mut p, &ids, &mut obs);
    }
    // the in-process run tells how many requests / responses to expect: wait for them (or give up after 10 s; a
    // short grace period afterwards catches anything the binary does in excess)
    let t0 = Instant::now();
    loop {
        drain_responses(&mut p, &ids, &mut obs);
        let n_req = p.node.sim.lock().unwrap().new_requests.iter().filter(|r| r.method != Method::Getinfo).count();
        if (n_req >= expect_req && obs.len() >= expect_resp) || t0.elapsed() > Duration::from_secs(10) {
            break;
        }
        std::thread::sleep(Duration::from_millis(5));
    }
    std::thread::sleep(Duration::from_millis(40));
    drain_responses(&mut p, &ids, &mut obs);
    let reqs = p.node.sim.lock().unwrap().take_new_requests();
    let mut out: Vec<String> = reqs
        .iter()
        .filter(|r| r.method != Method::Getinfo)
        .map(|r| format!("req {} {}", r.label, normalise_stamps(&r.params.to_string())))
        .collect();
    out.extend(obs);
    let _ = resp_string;
    Ok(out)
}

/// Apply a node-internal event given by its engine-W label. Ok(false) = not applicable yet.
fn apply_node_event(s: &mut Sim, label: &str, cfg: &crate::engine_w::WCfg) -> Result<bool, String> {
    use crate::sim::{PartStatus, PayOutcome};
    if let Some(c) = label.strip_prefix("PaySpawnPart(").and_then(|x| x.strip_suffix(')')) {
        for i in 0..s.pays.len() {
            if s.pays[i].running && s.cmd_label(i) == c {
                s.spawn_part(i);
                return Ok(true);
            }
        }
        return Ok(false);
    }
    if let Some(rest) = label.strip_prefix("PayEnd(").and_then(|x| x.strip_suffix(')')) {
        let (c, o) = rest.rsplit_once(',').ok_or("bad PayEnd label")?;
        for i in 0..s.pays.len() {
            if s.pays[i].running && s.cmd_label(i) == c {
                let outcome = s.allowed_outcomes(i).into_iter().find(|x| x.label() == o).unwrap_or(PayOutcome::RpcError(210));
                let _ = s.end_pay(i, &outcome);
                return Ok(true);
            }
        }
        return Ok(false);
    }
    if let Some(rest) = label.strip_prefix("Part(").and_then(|x| x.strip_suffix(')')) {
        let (part, st) = rest.rsplit_once(',').ok_or("bad Part label")?;
        for i in 0..s.parts.len() {
            let pl = format!("g{}.p{}@{}", s.parts[i].groupid, s.parts[i].partid, &s.parts[i].hash[..4]);
            if pl == part && s.parts[i].status == PartStatus::Pending {
                let status = if st == "Complete" { PartStatus::Complete } else { PartStatus::Failed(st.trim_start_matches("Fail").parse().unwrap_or(204)) };
                s.resolve_part(i, status);
                return Ok(true);
            }
        }
        return Ok(false);
    }
    let _ = cfg;
    Err(format!("unknown node event {}", label))
}

// ------------------------------------------------------------------ malformed payloads through the real binary (C06)

/// Malformed onion payloads handed to the real binary through its real stdin: every call is answered (with a
/// result or a JSON-RPC error) and the process keeps serving afterwards.
pub fn malformed(_thorough: bool, _threads: usize, name: &'static str) -> JobResult {
    let mut result = JobResult {
        name: name.to_string(),
        engine: "E".into(),
        level_completed: 0,
        exhaustive: true,
        ..Default::default()
    };
    if !Path::new(&binary()).exists() {
        result.error = Some(format!("{} not built", binary()));
        return result;
    }
    let mut payloads: Vec<String> = vec!["".into(), "00".into(), "fd".into(), "fe".into(), "ff".into(), "01fd".into(), "02fd00".into(), "03fe0000".into(), "zz".into(), "0".into()];
    for s in crate::engine_i::structured_streams().into_iter().filter(|s| s.len() < 40).take(120) {
        payloads.push(hex::encode(s));
    }
    let mut p = match Proc::start(false) {
        Ok(p) => p,
        Err(e) => {
            result.error = Some(e);
            return result;
        }
    };
    match p.handshake(&json!({})) {
        Ok(true) => {}
        other => {
            result.error = Some(format!("handshake: {:?}", other));
            return result;
        }
    }
    let mut answered = 0u64;
    for (i, pl) in payloads.iter().enumerate() {
        p.next_id += 1;
        let id = json!(p.next_id);
        let req = json!({"jsonrpc":"2.0","id":id,"method":"htlc_accepted","params":{
            "onion": {"payload": pl, "type": "tlv", "shared_secret": "00", "forward_msat": 1, "total_msat": 1},
            "htlc": {"short_channel_id": "1x2x3", "id": i, "amount_msat": 1, "cltv_expiry": 800100, "cltv_expiry_relative": 100, "payment_hash": "07".repeat(32)},
        }});
        p.send(&req);
        result.evaluations += 1;
        match p.wait_reply(&id, Duration::from_secs(10)) {
            Some(r) => {
                if r.get("result").is_some() || r.get("error").is_some() {
                    answered += 1;
                } else {
                    result.found.push(FoundAny {
                        violation: Violation {
                            property: "C06",
                            clause: "well-formed-response",
                            shape: "the real binary answered a malformed request with neither a result nor an error".into(),
                            detail: format!("payload {} reply {}", pl, r),
                        },
                        cost: 0,
                        replay: json!({"engine":"E","scenario":name,"payload":pl}),
                    });
                }
            }
            None => {
                let dead = p.exited(Duration::from_millis(200)).is_some();
                result.found.push(FoundAny {
                    violation: Violation {
                        property: "C06",
                        clause: "answered",
                        shape: if dead { "the real binary died on a malformed onion payload".into() } else { "the real binary never answered a call with a malformed onion payload".into() },
                        detail: format!("payload {:?}; stderr: {}", pl, p.stderr_tail.lock().unwrap().lines().last().unwrap_or("")),
                    },
                    cost: 0,
                    replay: json!({"engine":"E","scenario":name,"payload":pl}),
                });
                break;
            }
        }
    }
    // still healthy: a normal funded trampoline HTLC is paid and settled
    let need = 1_005_000;
    let spec = htlc_for(&InvoiceSpec::fixed(2, 1_000_000), 9000, need, need, 800_000 + 1018);
    let id = p.htlc(&spec);
    match p.wait_reply(&id, Duration::from_secs(10)) {
        Some(r) if r["result"]["result"] == "resolve" => answered += 1,
        other => result.found.push(FoundAny {
            violation: Violation {
                property: "C06",
                clause: "answered",
                shape: "after malformed requests the real binary no longer serves a normal payment".into(),
                detail: format!("{:?}", other),
            },
            cost: 0,
            replay: json!({"engine":"E","scenario":name}),
        }),
    }
    result.nontrivial = answered;
    result.extra.insert("calls_answered_by_binary".into(), json!(answered));
    result.rule = Some(format!("{} htlc_accepted calls with malformed / truncated onion payload hex (empty, lone varint markers, odd-length and non-hex strings, the short structured truncations of C18) sent to the real binary over its real stdin; each must be answered with a result or a JSON-RPC error, the process must stay alive and then pay a normal trampoline HTLC", payloads.len()));
    result.samples = vec![json!({"payloads": payloads.iter().take(12).collect::<Vec<_>>()})];
    result
}
