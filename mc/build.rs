// Generates the subject module list from /repo/src/main.rs so that the harness
// compiles exactly the modules the real binary compiles.
use std::{env, fs, path::Path};

fn main() {
    let repo = env::var("VERIF_REPO").unwrap_or_else(|_| "/repo".to_string());
    println!("cargo:rerun-if-env-changed=VERIF_REPO");
    let main_rs = format!("{}/src/main.rs", repo);
    println!("cargo:rerun-if-changed={}", main_rs);
    let src = fs::read_to_string(&main_rs).expect("read /repo/src/main.rs");
    let mut out = String::new();
    for line in src.lines() {
        let l = line.trim();
        if let Some(rest) = l.strip_prefix("mod ") {
            if let Some(name) = rest.strip_suffix(';') {
                let name = name.trim();
                let f1 = format!("{}/src/{}.rs", repo, name);
                let f2 = format!("{}/src/{}/mod.rs", repo, name);
                let f = if Path::new(&f1).exists() { f1 } else { f2 };
                println!("cargo:rerun-if-changed={}", f);
                out.push_str(&format!("#[path = \"{}\"]\npub mod {};\n", f, name));
            }
        }
    }
    let dst = Path::new(&env::var("OUT_DIR").unwrap()).join("subject_mods.rs");
    fs::write(dst, out).unwrap();
}
